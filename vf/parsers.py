"""Independent readers/writers for FASTA, Clustal and MSF.  Shares nothing with kalign's own parsers.

parse_* return (rows, problems): rows = list of (name, gapped_row) as bytes; problems = list of strings
describing departures from well-formedness (used by C15; C01 only needs the rows)."""
import re


def parse_fasta(data, wrap=60):
    rows, problems = [], []
    name, chunks = None, []
    lines = data.split(b'\n')
    if lines and lines[-1] == b'':
        lines.pop()
    else:
        problems.append('file does not end with a newline')
    def flush():
        if name is not None:
            for k, c in enumerate(chunks):
                if wrap and (len(c) > wrap or (k < len(chunks) - 1 and len(c) != wrap)):
                    problems.append('row %r: line of %d columns (wrap is %d)' % (name[:30], len(c), wrap))
                    break
            rows.append((name, b''.join(chunks)))
    for ln in lines:
        if ln.startswith(b'>'):
            flush()
            name, chunks = ln[1:], []
        else:
            if name is None:
                problems.append('data before first header')
                continue
            if ln == b'':
                problems.append('empty line inside record')
            chunks.append(ln)
    flush()
    return rows, problems


def _blocks(lines):
    blk, out = [], []
    for ln in lines:
        if ln.strip() == b'':
            if blk:
                out.append(blk); blk = []
        else:
            blk.append(ln)
    if blk:
        out.append(blk)
    return out


def parse_clustal(data, wrap=60):
    rows, problems = [], []
    lines = data.split(b'\n')
    if not lines or b'multiple sequence alignment' not in lines[0] and not lines[0].startswith(b'CLUSTAL'):
        problems.append('missing Clustal header line')
        body = lines
    else:
        body = lines[1:]
    blocks = _blocks(body)
    names, seqs = [], []
    for bi, blk in enumerate(blocks):
        cur = []
        for ln in blk:
            if ln[:1] in (b' ', b'\t'):
                body = ln.strip()
                if body and all((65 <= c <= 90 or 97 <= c <= 122 or c == 0x2d) for c in body) and any(c != 0x2d for c in body):
                    cur.append((b'', body))   # a row whose name is empty (kalign writes what it read)
                continue                       # conservation line
            parts = ln.split()
            if len(parts) < 2:
                # a row whose sequence part is empty in this block
                problems.append('block %d: line without sequence data: %r' % (bi, ln[:40]))
                parts = [parts[0], b'']
            cur.append((parts[0], b''.join(parts[1:])))
        if bi == 0:
            names = [n for n, _ in cur]
            seqs = [[s] for _, s in cur]
        else:
            if [n for n, _ in cur] != names:
                problems.append('block %d: sequences differ from first block (every sequence must appear in every block, in order)' % bi)
                # best-effort recovery by name
                d = dict(cur)
                cur = [(n, d.get(n, b'')) for n in names]
            for k, (_, s) in enumerate(cur):
                seqs[k].append(s)
        w = set(len(s) for _, s in cur)
        if len(w) > 1:
            problems.append('block %d: rows of different width' % bi)
        if w and max(w) > wrap:
            problems.append('block %d: %d columns (more than %d)' % (bi, max(w), wrap))
        if w and bi < len(blocks) - 1 and max(w) != wrap:
            problems.append('block %d: inner block of %d columns' % (bi, max(w)))
    for n, parts in zip(names, seqs):
        rows.append((n, b''.join(parts)))
    return rows, problems


def gcg_checksum(row):
    chk = 0
    for i, c in enumerate(row.upper()):
        chk = (chk + (i % 57 + 1) * c) % 10000
    return chk


def parse_msf(data, wrap=60):
    """returns rows, problems, header dict {msf_len, type, check, per-seq: [(name,len,check,weight)], kindline}"""
    rows, problems = [], []
    hdr = {'msf_len': None, 'type': None, 'check': None, 'seqs': [], 'kindline': None}
    lines = data.split(b'\n')
    i = 0
    sep = None
    for k, ln in enumerate(lines):
        if ln.strip() == b'//':
            sep = k
            break
    if sep is None:
        problems.append('no // separator')
        return rows, problems, hdr
    for ln in lines[:sep]:
        if ln.startswith(b'!!AA_MULTIPLE_ALIGNMENT'):
            hdr['kindline'] = 'P'
        elif ln.startswith(b'!!NA_MULTIPLE_ALIGNMENT'):
            hdr['kindline'] = 'N'
        m = re.search(rb'MSF:\s*(\d+)\s+Type:\s*(\S)\s.*Check:\s*(\d+)\s+\.\.', ln)
        if m:
            hdr['msf_len'], hdr['type'], hdr['check'] = int(m.group(1)), m.group(2).decode(), int(m.group(3))
        m = re.match(rb'\s*Name:\s*(\S*?)\s+Len:\s*(\d+)\s+Check:\s*(\d+)\s+Weight:\s*([\d.]+)', ln)
        if m:
            hdr['seqs'].append((m.group(1), int(m.group(2)), int(m.group(3)), m.group(4)))
    if hdr['msf_len'] is None:
        problems.append('no "MSF: <len> Type: <t> ... Check: <n> .." header line')
    if hdr['kindline'] is None:
        problems.append('no !!AA_/!!NA_MULTIPLE_ALIGNMENT line')
    blocks = _blocks(lines[sep + 1:])
    names = [s[0] for s in hdr['seqs']]
    seqs = [[] for _ in names]
    for bi, blk in enumerate(blocks):
        cur = []
        for ln in blk:
            parts = ln.split()
            if ln[:1] in (b' ', b'\t') and b'' in names:
                parts = [b''] + parts          # a row whose name is empty (kalign writes what it read)
            if len(parts) < 2:
                problems.append('block %d: line without sequence data: %r' % (bi, ln[:40]))
                parts = [parts[0], b'']
            cur.append((parts[0], b''.join(parts[1:])))
        if [n for n, _ in cur] != names:
            problems.append('block %d: sequences differ from the header list (every sequence in every block, in order)' % bi)
            d = dict(cur)
            cur = [(n, d.get(n, b'')) for n in names]
        for k, (_, s) in enumerate(cur):
            seqs[k].append(s)
        w = set(len(s) for _, s in cur)
        if len(w) > 1:
            problems.append('block %d: rows of different width' % bi)
        if w and max(w) > wrap:
            problems.append('block %d: %d columns (more than %d)' % (bi, max(w), wrap))
    for n, parts in zip(names, seqs):
        rows.append((n, b''.join(parts)))
    return rows, problems, hdr


def parse_blocks_loose(data, fmt):
    """Clustal/MSF as kalign writes them, for rows whose NAME may contain blanks (names read from garbage input):
    rows are matched by position within a block, the residues are the last blank-separated token of a line
    (kalign writes the 60-column chunk without blanks), everything before it is the name."""
    lines = data.split(b'\n')
    if fmt.startswith('msf'):
        sep = next((k for k, ln in enumerate(lines) if ln.strip() == b'//'), None)
        if sep is None:
            return []
        body = lines[sep + 1:]
    else:
        body = lines[1:]
    names, seqs = [], []
    for bi, blk in enumerate(_blocks(body)):
        cur = []
        for ln in blk:
            t = ln.split()
            if not t:
                continue
            seq = t[-1]
            cur.append((ln[:len(ln.rstrip()) - len(seq)].rstrip(), seq))
        if bi == 0:
            names = [n for n, _ in cur]; seqs = [[x] for _, x in cur]
        else:
            if len(cur) != len(names):
                return []
            for k, (_, x) in enumerate(cur):
                seqs[k].append(x)
    return [(n, b''.join(p)) for n, p in zip(names, seqs)]


# ---------------------------------------------------------------- writers (for C04 presentations)

def wrap_lines(s, width):
    if width <= 0 or not s:
        return [s]
    return [s[i:i + width] for i in range(0, len(s), width)]


def emit_fasta(names, rows, width=60, blank_every=0, crlf=False, trail=b''):
    nl = b'\r\n' if crlf else b'\n'
    out = []
    for n, r in zip(names, rows):
        out.append(b'>' + n + nl)
        for k, ln in enumerate(wrap_lines(r, width)):
            out.append(ln + trail + nl)
            if blank_every and (k + 1) % blank_every == 0:
                out.append(nl)
    return b''.join(out)


def emit_clustal(names, rows, width=60, header=b'CLUSTAL W (1.83) multiple sequence alignment', crlf=False, pad=2, cons=False, ragged=None, counts=False):
    nl = b'\r\n' if crlf else b'\n'
    L = len(rows[0]) if rows else 0
    w = max(len(n) for n in names) + pad
    out = [header + nl, nl, nl]
    if width <= 0:
        width = max(L, 1)             # unwrapped: one block
    for off in range(0, max(L, 1), width):
        for k, (n, r) in enumerate(zip(names, rows)):
            seg = r[off:off + width]
            if ragged is not None:
                # padding between name and residues is free-form: 1..5 blanks or a tab, different for every row
                sep = ragged[(k + off) % len(ragged)]
                line = n + sep + seg
            else:
                line = n.ljust(w) + seg
            if counts:
                line += b' %d' % (off + len(seg.replace(b'-', b'')),)
            out.append(line + nl)
        if cons:
            out.append(b' ' * w + b' ' * min(width, L - off) + nl)
        out.append(nl)
    return b''.join(out)


def emit_msf(names, rows, width=50, group=10, kind='N', crlf=False, gapch=b'.', title=b'x.msf', ragged=None, sep_blank=True):
    nl = b'\r\n' if crlf else b'\n'
    L = len(rows[0]) if rows else 0
    w = max(len(n) for n in names) + 2
    rows2 = [r.replace(b'-', gapch) for r in rows]
    out = [(b'!!AA_MULTIPLE_ALIGNMENT 1.0' if kind == 'P' else b'!!NA_MULTIPLE_ALIGNMENT 1.0') + nl, nl]
    tot = 0
    chks = []
    for r in rows2:
        c = gcg_checksum(r); chks.append(c); tot = (tot + c) % 10000
    out.append(b' ' + title + b'  MSF: %d  Type: %s  January 01, 2000 12:00  Check: %d  ..' % (L, kind.encode(), tot) + nl + nl)
    for n, c in zip(names, chks):
        out.append(b' Name: ' + n.ljust(w) + b' Len: %5d  Check: %4d  Weight: 1.00' % (L, c) + nl)
    out.append(nl + b'//' + nl + (nl if sep_blank else b''))      # the blank line after the separator is customary, not required
    if width <= 0:
        width = max(L, 1)
    for off in range(0, max(L, 1), width):
        for n, r in zip(names, rows2):
            seg = r[off:off + width]
            if group:
                seg = b' '.join(seg[i:i + group] for i in range(0, len(seg), group))
            out.append((n + ragged[(off + len(n)) % len(ragged)] if ragged is not None else n.ljust(w)) + seg + nl)
        out.append(nl)
    return b''.join(out)


def degap(row):
    return bytes(c for c in row if c not in b'-.~ ')
