"""Job kind 'sched': one alignment request executed (a) by the sequential elision of kalign (the
reference model, `serial` variant, twice with different heap garbage) and (b) by k simulated
OpenMP executions with seeded schedules.  Serves C01 (integrity on every run), C02 (byte equality,
ordering invariants) and C10 (completed nodes are never re-aligned)."""
import copy, random
import gen, plans, oracles
from parsers import parse_fasta

KIND = 'sched'

RULE = {
    'C01': 'each job = one generated alignment request (sequence family x type x penalties x entry point x output format) executed by the sequential reference twice and by 1-4 seeded simulated OpenMP schedules; integrity oracle on every output. distinct_nontrivial counts distinct (workload hash, thread count, event-log hash) of simulated runs in which at least one scheduling decision differed from the all-defaults schedule or at least one access-level preemption fired',
    'C02': 'each job = one alignment request executed by the sequential reference (twice, different heap garbage) and by 3-16 seeded simulated OpenMP schedules (thread counts 1-64, team shortfall, nesting ICV, defer/run-now, pick order, stalls, access-level preemption); byte equality of everything observable plus online ordering invariants. distinct_nontrivial counts distinct (workload hash, thread count, event-log hash) of simulated runs with at least one non-default scheduling decision or preemption',
    'C10': 'each job = one alignment request under the sequential reference and 2-6 seeded schedules; at every node completion the sub-alignment of the node is snapshotted and at the end of the run the final alignment is projected onto each node and compared. distinct_nontrivial as for C02',
}
ASSUMPTIONS = ['simomp models a conforming OpenMP runtime under sequential consistency; weak-memory behaviours are out of reach',
               'preemption only at KALIGN_VERIF events and at compiler-instrumented memory accesses of kalign code',
               'the sequential elision of the same sources is the reference model for the parallel program']


def variants(prop, tier):
    return ['serial', 'plain', 'preempt'] + (['asan'] if tier == 'thorough' else [])


def gen_spec(prop, rng, tier):
    if prop == 'C02':
        weights = [8, 22, 14, 18, 22, 8, 8]       # more k-means and Hirschberg-region workloads
        nruns = rng.choice([3, 4, 4, 5]) if tier == 'quick' else rng.choice([6, 8, 12, 16])
    elif prop == 'C10':
        weights = [5, 35, 30, 12, 6, 6, 6]
        nruns = 2 if tier == 'quick' else rng.choice([3, 4, 6])
    else:  # C01
        weights = [18, 34, 14, 8, 8, 10, 8]
        nruns = rng.choice([1, 2]) if tier == 'quick' else rng.choice([2, 3, 4])
    wl = gen.gen_workload(rng, weights=weights)
    if tier == 'thorough' and rng.random() < 0.004:
        wl = gen.gen_workload(rng, profile='large')
    elif rng.random() < (0.10 if prop == 'C02' else 0.03):
        wl = gen.gen_workload(rng, profile='multilong')
    elif rng.random() < (0.03 if prop == 'C10' else 0.012):
        wl = gen.gen_workload(rng, profile='many')
    elif rng.random() < 0.06:
        wl = gen.gen_workload(rng, profile='boundary')
    elif prop in ('C02', 'C10') and rng.random() < (0.008 if tier == 'quick' else 0.03):
        wl = gen.gen_workload(rng, profile='broom')        # guide trees 50-90 levels deep with forks at many depths
    myriad = prop == 'C01' and rng.random() < (0.0002 if tier == 'quick' else 0.001)
    if myriad:
        # more sequences than a 16-bit index holds (the property text says "2..thousands of sequences"; the count fields
        # of the implementation are ints): very short records so that one run stays under half a minute
        n = rng.randint(65530, 66100)
        alpha = rng.choice([gen.DNA, gen.PROT])
        wl = {'kind': 'dna' if alpha == gen.DNA else 'protein', 'profile': 'myriad', 'shape': 'random', 'names': ['s%d' % i for i in range(n)],
              'seqs': [gen.rand_seq(rng, alpha, rng.randint(6, 9)) for _ in range(n)], 'type': gen.T_UNDEF, 'gpo': -1.0, 'gpe': -1.0, 'tgpe': -1.0}
        nruns = 1
    if prop == 'C01' and rng.random() < 0.15 and len(wl['seqs']) >= 3 and not myriad:
        # zero-length input sequences: "one row per NON-EMPTY input sequence, in input order"
        for _ in range(rng.randint(1, 3)):
            k = rng.randrange(len(wl['seqs']) + 1)
            wl['seqs'].insert(k, ''); wl['names'].insert(k, 'empty%d_%d' % (k, rng.randrange(1000)))
        wl['names'] = ['%s.%d' % (n.split('.')[0][:18], i) for i, n in enumerate(wl['names'])]
    big = wl['profile'] in ('kmeans', 'hirsch', 'medium', 'large', 'multilong', 'many', 'broom', 'myriad') or (wl['profile'] == 'boundary' and len(wl['seqs']) * max(len(x) for x in wl['seqs']) > 20000)
    if wl['profile'] == 'large' or (wl['profile'] == 'broom' and tier == 'quick'):
        nruns = min(nruns, 2)
    if prop == 'C01':
        entry = rng.choice(['A', 'LIB', 'LIB', 'CLI', 'CLI_STDOUT'])
        fmt = rng.choice(['fasta', 'msf', 'clu'])
        if myriad:
            entry = rng.choice(['LIB', 'CLI']); fmt = 'fasta'
    elif prop == 'C02':
        entry = rng.choice(['A', 'LIB', 'LIB', 'CLI'])
        fmt = rng.choice(['fasta', 'fasta', 'clu', 'msf'])
    else:
        entry = rng.choice(['A', 'LIB'])
        fmt = 'fasta'
    spec = {'kind': KIND, 'prop': prop, 'wl': wl, 'entry': entry, 'fmt': fmt, 'quiet': rng.choice([1, 1, 0]) if entry.startswith('CLI') else 1,
            'repeat': 1 if (prop == 'C02' and rng.random() < 0.25 and not big) else 0,
            'ref_world': gen.gen_world(rng, calm=True), 'ref_nthreads': 1, 'ref2_junk': rng.getrandbits(62), 'runs': []}
    # "however often the run is repeated": where no timestamp is part of the observable output (no log lines,
    # no MSF date), every execution gets its own wall-clock epoch and step - a result that depends on the time
    # of day (a time-seeded choice) then shows as a difference
    clock_free = fmt != 'msf' and (entry in ('A', 'LIB') or (entry == 'CLI' and spec['quiet']))
    if clock_free:
        spec['ref_world']['clock_epoch'] = rng.randrange(0, 4102444800); spec['ref_world']['clock_step'] = rng.choice([0, 1, 7])
    spec['clock_varies'] = 1 if clock_free else 0
    for r in range(nruns):
        v = rng.choices(['plain', 'preempt', 'asan'] if tier == 'thorough' else ['plain', 'preempt'], [5, 4, 2] if tier == 'thorough' else [5, 4])[0]
        if big and v == 'asan' and rng.random() < 0.5:
            v = 'plain'
        if wl['profile'] in ('large', 'myriad'):
            v = 'plain'
        w = gen.gen_world(rng, preempt=(v == 'preempt'))
        if wl['profile'] in ('large', 'myriad'):
            w['wall_limit'] = 120; w['p_hook_yield'] = min(w.get('p_hook_yield', 0), 2000)
        if clock_free:
            w['clock_epoch'] = rng.randrange(0, 4102444800); w['clock_step'] = rng.choice([0, 1, 3600])
        nt = gen.thread_count(rng)
        if wl['profile'] == 'hirsch' and rng.random() < 0.6:
            # the nested Hirschberg region only gets a real team when nesting is active and > 1 thread is asked for
            w['max_active_levels'] = rng.choice([2, 2, 3]); nt = rng.choice([2, 2, 3, 4, 8])
        if w.get('max_active_levels', 1) > 1 and nt > 8:
            nt = rng.choice([2, 3, 4, 8])        # nested teams multiply: keep the product bounded
        spec['runs'].append({'variant': v, 'nthreads': nt, 'world': w, 'dec': None, 'pre': None})
    return spec


def plans_of(spec):
    out = []
    wl = spec['wl']
    quiet = spec.get('quiet', 1)
    rw = dict(spec['ref_world']); rw['c10'] = 1
    if wl['profile'] in ('large', 'myriad'):
        rw['wall_limit'] = 120
    p = plans.base_plan('ref', rw)
    ix = plans.add_entry(p, wl, spec['entry'], spec['fmt'], spec['ref_nthreads'], spec['repeat'], quiet)
    out.append(('ref', 'serial', p, ix))
    rw2 = dict(rw); rw2['junk_seed'] = spec['ref2_junk']
    if spec.get('clock_varies'):
        rw2['clock_epoch'] = (rw.get('clock_epoch', 0) * 7 + 12345) % 4102444800
    if wl['profile'] != 'myriad':          # (the 66 000-sequence scenario keeps to the reference and one schedule)
        p = plans.base_plan('ref2', rw2)
        plans.add_entry(p, wl, spec['entry'], spec['fmt'], spec['ref_nthreads'], spec['repeat'], quiet)
        out.append(('ref2', 'serial', p, ix))
    for k, r in enumerate(spec['runs']):
        w = dict(r['world']); w['c10'] = 1
        p = plans.base_plan('run%d' % k, w, r.get('dec'), r.get('pre'))
        plans.add_entry(p, wl, spec['entry'], spec['fmt'], r['nthreads'], spec['repeat'], quiet)
        fresh = bool(w.get('p_shared')) and r.get('dec') is None      # address-keyed decisions: fresh worker, ASLR off
        out.append(('run%d' % k, r['variant'], p, ix, fresh))
    return out


def _rows_of(spec, res, ix):
    """parsed output rows of one run: list of (which, fmt, rows-with-names-or-None, raw bytes)"""
    outs = []
    wl = spec['wl']
    e = spec['entry']
    if e == 'A':
        for key in ('A', 'A2'):
            if key in ix:
                o = res.op(ix[key])
                if o is not None and o.rc == 0:
                    n = len(oracles.nonempty_inputs(wl['names'], wl['seqs']))
                    rows = [o.out.get('row%d' % i) for i in range(len(wl['seqs'])) if ('row%d' % i) in o.out]
                    outs.append((key, 'array', rows, None, int(o.f.get('alen', -1))))
    elif e == 'LIB':
        for key, fn in (('W', 'out.'), ('W2', 'out.')):
            if key in ix:
                o = res.op(ix[key])
                if o is not None and o.rc == 0:
                    data = o.out.get('file:' + fn + plans.EXT[spec['fmt']])
                    outs.append((key, spec['fmt'], None, data, None))
    else:
        o = res.op(ix['CLI'])
        if o is not None and o.rc == 0:
            if e == 'CLI':
                outs.append(('CLI', spec['fmt'], None, o.out.get('file:out.' + plans.EXT[spec['fmt']]), None))
            else:
                outs.append(('CLI', spec['fmt'], None, o.out.get('stdout', b''), 'stdout'))
    return outs


def _strip_log(data, fmt):
    """CLI without -o: banner and log lines share stdout with the alignment.  Keep from the first
    line that can start the alignment."""
    lines = data.split(b'\n')
    start = 0
    for i, ln in enumerate(lines):
        if fmt == 'fasta' and ln.startswith(b'>'):
            start = i; break
        if fmt == 'clu' and ln.startswith(b'Kalign (') and b'multiple sequence alignment' in ln:
            start = i; break
        if fmt == 'msf' and ln.startswith(b'!!'):
            start = i; break
    return b'\n'.join(lines[start:])


def judge(spec, results):
    """returns list of violation dicts: prop, cls, detail, sig, tag (which run)"""
    V = []
    wl = spec['wl']
    tags = [t for t in ('ref', 'ref2')] + ['run%d' % k for k in range(len(spec['runs']))]
    ref = results.get('ref')
    ref2 = results.get('ref2')
    ix = spec.get('_ix')

    def add(prop, cls, detail, tag):
        V.append({'prop': prop, 'cls': cls, 'detail': detail, 'sig': '%s:%s' % (prop, cls), 'tag': tag})

    # online invariants reported by the simulator (C02 ordering, C10 projection)
    for tag in tags:
        r = results.get(tag)
        if r is None:
            continue
        for cls, detail in r.viol:
            prop = cls.split('_', 1)[0]
            add(prop, cls, detail, tag)

    # C01 on every execution that produced output
    for tag in tags:
        r = results.get(tag)
        if r is None:
            continue
        for which, fmt, rows, data, extra in _rows_of(spec, r, ix):
            if fmt == 'array':
                probs = oracles.integrity(wl['names'], wl['seqs'], rows, check_names=False)
                if not probs and rows and extra != len(rows[0]):
                    probs.append(('ALEN', 'out_aln_len=%s but rows are %d long' % (extra, len(rows[0]))))
            else:
                if data is None:
                    probs = [('NO_OUTPUT', 'call returned success but nothing was written')]
                else:
                    if extra == 'stdout':
                        data = _strip_log(data, fmt)
                    prs, _, _ = oracles.parse_output(fmt, data)
                    probs = oracles.integrity(wl['names'], wl['seqs'], prs, check_names=True)
            for c, d in probs[:2]:
                add('C01', 'C01_' + c, '%s (%s, entry %s, format %s)' % (d, tag, spec['entry'], spec['fmt']), tag)

    # the reference itself
    if ref is not None and ref.crash_class() == 'SLOW':
        return V
    if ref is None or ref.crashed():
        cc = ref.crash_class() if ref is not None else 'NO_RESULT'
        add('X', 'X_REF_CRASH:%s' % cc, 'sequential reference run ended with %s at %s' % (cc, ref.crash_site() if ref is not None else '?'), 'ref')
        return V
    fref = plans.fingerprint(ref)
    fref_aln = plans.fingerprint(ref, alignment_only=True)
    if ref2 is not None:
        if ref2.crashed():
            add('C02', 'C02_UNINIT_DEPENDENCE', 'sequential run with other heap garbage ended with %s' % ref2.crash_class(), 'ref2')
        else:
            d = plans.first_difference(fref, plans.fingerprint(ref2))
            if d:
                add('C02', 'C02_UNINIT_DEPENDENCE', 'two sequential runs that differ only in the contents of fresh heap memory give different results: ' + d, 'ref2')
    # repetition inside one run
    if spec['repeat'] and ix:
        for a, b in (('A', 'A2'), ('W', 'W2')):
            if a in ix and b in ix:
                oa, ob = ref.op(ix[a]), ref.op(ix[b])
                if oa and ob:
                    va = sorted(plans._mask_log_time(v) if k in ('stdout', 'stderr') else v for k, v in oa.out.items())
                    vb = sorted(plans._mask_log_time(v) if k in ('stdout', 'stderr') else v for k, v in ob.out.items())
                    if va != vb or oa.rc != ob.rc:
                        add('C02', 'C02_REPEAT_DIFFERS', 'repeating the run on the same object gives a different result', 'ref')
    # every simulated schedule against the reference
    for k, run in enumerate(spec['runs']):
        tag = 'run%d' % k
        r = results.get(tag)
        if r is None:
            continue
        if r.crashed():
            cc = r.crash_class()
            cls = 'C02_HANG_UNDER_SCHEDULE' if cc in ('DEADLOCK', 'BUDGET', 'TIMEOUT') else 'C02_CRASH_UNDER_SCHEDULE'
            if cc == 'SLOW':
                continue          # progressing but given up after the hard cap: not a verdict about kalign
            if cc in ('UNSUPPORTED', 'HARNESS'):
                add('H', 'H_' + cc, str(r.fatal), tag)
            else:
                add('C02', cls, 'the sequential reference completed, this schedule (%d threads, %s) ended with %s at %s' % (run['nthreads'], run['variant'], cc, r.crash_site()), tag)
            continue
        d = plans.first_difference(fref_aln, plans.fingerprint(r, alignment_only=True))
        if d:
            add('C02', 'C02_OUTPUT_DIFFERS', 'schedule with %d threads (%s) vs sequential reference: %s' % (run['nthreads'], run['variant'], d), tag)
    return V


def nontrivial_keys(spec, results):
    keys = []
    h = plans.wl_hash(spec['wl'])
    for k in range(len(spec['runs'])):
        r = results.get('run%d' % k)
        if r is None or r.evhash is None:
            continue
        nz = (r.trace and any(c for _, _, c in r.trace)) or (r.pre and len(r.pre) > 0)
        if nz:
            keys.append('%s:%s:%s' % (h, spec['runs'][k]['nthreads'], r.evhash))
    return keys


def summary(spec, results=None):
    wl = spec['wl']
    s = {'kind': wl['kind'], 'profile': wl['profile'], 'shape': wl['shape'], 'numseq': len(wl['seqs']),
         'len_min': min(len(x) for x in wl['seqs']), 'len_max': max(len(x) for x in wl['seqs']), 'empty_seqs': sum(1 for x in wl['seqs'] if not x),
         'type': wl['type'], 'gp': [wl['gpo'], wl['gpe'], wl['tgpe']], 'entry': spec['entry'], 'fmt': spec['fmt'],
         'runs': [{'variant': r['variant'], 'nthreads': r['nthreads'],
                   'world': {k: v for k, v in r['world'].items() if k not in ('junk_seed', 'fs_seed')}} for r in spec['runs']]}
    if results:
        for k in range(len(spec['runs'])):
            r = results.get('run%d' % k)
            if r is not None:
                s['runs'][k]['decisions'] = len(r.trace or [])
                s['runs'][k]['first_decisions'] = ['%d:%d:%d' % t for t in (r.trace or [])[:12]]
                s['runs'][k]['preemptions'] = len(r.pre or [])
                s['runs'][k]['events'] = r.evcount
                s['runs'][k]['evhash'] = r.evhash
    return s


# ---------------------------------------------------------------- shrinking

def shrinks(spec, viol):
    """candidate simplifications, most aggressive first; each is a new spec"""
    tag = viol.get('tag', '')
    # 1. keep only the run that fails
    if tag.startswith('run') and len(spec['runs']) > 1:
        k = int(tag[3:])
        s = copy.deepcopy(spec); s['runs'] = [spec['runs'][k]]
        yield s
    elif tag in ('ref', 'ref2') and spec['runs']:
        s = copy.deepcopy(spec); s['runs'] = []
        yield s
    wl = spec['wl']
    n = len(wl['seqs'])
    # 2. drop sequences (halves, then singles)
    chunk = n // 2
    while chunk >= 1:
        for st in range(0, n, chunk):
            keep = [i for i in range(n) if not (st <= i < st + chunk)]
            if len(keep) >= 2:
                s = copy.deepcopy(spec)
                s['wl']['seqs'] = [wl['seqs'][i] for i in keep]; s['wl']['names'] = [wl['names'][i] for i in keep]
                yield s
        chunk //= 2
    # 3. shorten sequences
    for frac in (2, 4):
        s = copy.deepcopy(spec)
        s['wl']['seqs'] = [x[:max(1, len(x) - len(x) // frac)] for x in wl['seqs']]
        if s['wl']['seqs'] != wl['seqs']:
            yield s
        s = copy.deepcopy(spec)
        s['wl']['seqs'] = [x[len(x) // frac:] or x[:1] for x in wl['seqs']]
        if s['wl']['seqs'] != wl['seqs']:
            yield s
    for i in range(n):
        if len(wl['seqs'][i]) > 1:
            s = copy.deepcopy(spec); s['wl']['seqs'][i] = wl['seqs'][i][:len(wl['seqs'][i]) // 2]
            yield s
    # 4. simpler configuration
    if wl['gpo'] >= 0 or wl['gpe'] >= 0 or wl['tgpe'] >= 0:
        s = copy.deepcopy(spec); s['wl']['gpo'] = s['wl']['gpe'] = s['wl']['tgpe'] = -1.0
        yield s
    if spec['repeat']:
        s = copy.deepcopy(spec); s['repeat'] = 0
        yield s
    if spec['entry'] != 'A':
        s = copy.deepcopy(spec); s['entry'] = 'A'
        yield s
    # 5. simpler worlds
    for k, r in enumerate(spec['runs']):
        w = r['world']
        if r['variant'] != 'plain' and not w.get('p_preempt'):
            s = copy.deepcopy(spec); s['runs'][k]['variant'] = 'plain'
            yield s
        for key in ('p_stall', 'p_shortfall', 'p_preempt', 'p_shared', 'p_burst', 'p_hook_yield', 'tw_descendants', 'pick_order'):
            if w.get(key):
                s = copy.deepcopy(spec); s['runs'][k]['world'][key] = 0
                if r.get('dec') is None:
                    yield s
        if w.get('max_active_levels', 1) > 1:
            s = copy.deepcopy(spec); s['runs'][k]['world']['max_active_levels'] = 1
            yield s
        if r['nthreads'] > 2:
            for nt in (2, r['nthreads'] // 2):
                s = copy.deepcopy(spec); s['runs'][k]['nthreads'] = nt
                yield s
        # 6. explicit decision list: zero out chunks, drop preemptions
        if r.get('dec') is not None:
            dec = r['dec']
            m = len(dec)
            chunk = max(1, m // 2)
            while chunk >= 1:
                for st in range(0, m, chunk):
                    if any(dec[st:st + chunk]):
                        s = copy.deepcopy(spec)
                        s['runs'][k]['dec'] = dec[:st] + [0] * len(dec[st:st + chunk]) + dec[st + chunk:]
                        yield s
                if chunk == 1:
                    break
                chunk //= 2
            pre = r.get('pre') or []
            if pre:
                s = copy.deepcopy(spec); s['runs'][k]['pre'] = []
                yield s
                for j in range(len(pre)):
                    s = copy.deepcopy(spec); s['runs'][k]['pre'] = pre[:j] + pre[j + 1:]
                    yield s


def harden(spec):
    """the same job with every simulated run on the ASan+UBSan build"""
    s = copy.deepcopy(spec)
    for r in s['runs']:
        if not r['world'].get('p_preempt'):
            r['variant'] = 'asan'
    if not any(r['variant'] == 'asan' for r in s['runs']) and s['runs']:
        s['runs'][0]['variant'] = 'asan'; s['runs'][0]['world']['p_preempt'] = 0
    return s


def make_explicit(spec, results):
    """freeze the schedules actually taken into explicit decision lists (replay does not depend on PRNG code)"""
    s = copy.deepcopy(spec)
    for k, r in enumerate(s['runs']):
        res = results.get('run%d' % k)
        if res is not None and res.trace is not None and not res.crashed():
            r['dec'] = [c for _, _, c in res.trace]
            r['pre'] = list(res.pre or [])
    return s
