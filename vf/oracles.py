"""Oracles that are literally the property statements evaluated on recorded outputs."""
from parsers import parse_fasta, parse_clustal, parse_msf, gcg_checksum


def nonempty_inputs(names, seqs):
    return [(n, s) for n, s in zip(names, seqs) if len(s) > 0]


def integrity(names, seqs, rows, check_names=True):
    """C01: rows = list of (name bytes, gapped row bytes) or of bare rows when names are not part of
    the output (array API).  names/seqs: the input (str).  Returns a list of (class, detail)."""
    exp = nonempty_inputs(names, seqs)
    probs = []
    if len(rows) != len(exp):
        probs.append(('ROWCOUNT', '%d rows for %d non-empty input sequences' % (len(rows), len(exp))))
        return probs
    widths = set()
    for k, ((n, s), r) in enumerate(zip(exp, rows)):
        rn, rr = r if isinstance(r, tuple) else (None, r)
        if check_names and rn is not None and rn != n.encode('latin-1'):
            probs.append(('NAME', 'row %d is named %r, input order has %r' % (k, rn[:40], n[:40])))
        widths.add(len(rr))
        res = bytes(c for c in rr if c != 0x2d)
        if res != s.encode('latin-1'):
            bad = [c for c in set(rr) if not (65 <= c <= 90 or 97 <= c <= 122 or c == 0x2d)]
            if bad:
                probs.append(('FOREIGN_CHAR', 'row %d contains byte(s) %r that are neither input letters nor "-"' % (k, bytes(bad)[:8])))
            else:
                probs.append(('RESIDUES', 'row %d without gaps is %r..., input is %r...' % (k, res[:30], s[:30])))
    if len(widths) > 1:
        probs.append(('RAGGED', 'rows have different lengths %s' % sorted(widths)[:5]))
    elif rows and not probs:
        L = widths.pop()
        rr = [r[1] if isinstance(r, tuple) else r for r in rows]
        for c in range(L):
            if all(r[c] == 0x2d for r in rr):
                probs.append(('GAP_COLUMN', 'column %d consists of gaps only' % c))
                break
    return probs


def parse_output(fmt, data):
    """-> rows, problems, header(dict or None)"""
    if fmt.startswith('msf'):
        return parse_msf(data)
    if fmt.startswith('clu'):
        r, p = parse_clustal(data)
        return r, p, None
    r, p = parse_fasta(data)
    return r, p, None


def wellformed(fmt, data, kind, outname):
    """C15: strict well-formedness of one written file. kind: 'dna'/'rna'/'protein' as kalign classified it.
    Returns list of (class, detail)."""
    out = []
    rows, probs, hdr = parse_output(fmt, data)
    for p in probs:
        out.append(('FORMAT', p))
    if not rows:
        out.append(('FORMAT', 'no rows'))
        return out
    L = len(rows[0][1])
    if fmt.startswith('msf') and hdr is not None:
        if hdr['msf_len'] is not None and hdr['msf_len'] != L:
            out.append(('MSF_LEN', 'header declares MSF: %d, rows are %d columns' % (hdr['msf_len'], L)))
        tot = 0
        for (n, row), (hn, hl, hc, hw) in zip(rows, hdr['seqs']):
            c = gcg_checksum(row)
            tot = (tot + c) % 10000
            if hl != L:
                out.append(('MSF_SEQ_LEN', 'Name: %s declares Len: %d, row is %d columns' % (hn.decode('latin-1')[:20], hl, L)))
                break
        for (n, row), (hn, hl, hc, hw) in zip(rows, hdr['seqs']):
            c = gcg_checksum(row)
            if hc != c:
                out.append(('MSF_SEQ_CHECK', 'Name: %s declares Check: %d, GCG checksum of the row is %d' % (hn.decode('latin-1')[:20], hc, c)))
                break
        if hdr['check'] is not None and hdr['check'] != tot:
            out.append(('MSF_CHECK', 'header declares Check: %d, sum of row checksums mod 10000 is %d' % (hdr['check'], tot)))
        want = 'P' if kind == 'protein' else 'N'
        if hdr['type'] is not None and hdr['type'] != want:
            out.append(('MSF_TYPE', 'header declares Type: %s for %s sequences' % (hdr['type'], kind)))
        if hdr['kindline'] is not None and hdr['kindline'] != want:
            out.append(('MSF_KINDLINE', '!!%sA_MULTIPLE_ALIGNMENT for %s sequences' % ('A' if hdr['kindline'] == 'P' else 'N', kind)))
        if len(hdr['seqs']) != len(rows):
            out.append(('FORMAT', '%d Name: lines, %d rows' % (len(hdr['seqs']), len(rows))))
    return out
