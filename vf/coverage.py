#!/usr/bin/env python3
"""Reach measurement: which lines/functions of kalign do the checks' workloads actually execute?

  coverage.py [seconds per property] [props...]

Builds simrun with gcc --coverage for the kalign sources (one OpenMP build standing in for the
plain/asan/preempt variants, one sequential build for the reference model), runs each property's
quick-tier job generator for the given time with every variant mapped onto those builds, and writes
/verif/coverage/REPORT.md + report.json: per property and in total, line coverage per source file and
the list of functions never entered.  Not a check (nothing is judged here; verdicts of the jobs are
ignored): it is the "measure reach" instrument that tells where the generators have to be widened.
"""
import json, multiprocessing, os, random, shutil, subprocess, sys, time
from concurrent.futures import ThreadPoolExecutor

HERE = os.path.dirname(os.path.abspath(__file__))
VERIF = os.path.dirname(HERE)
sys.path.insert(0, HERE)
import build, check, gen, sim  # noqa: E402

COVDIR = os.path.join(VERIF, 'build', 'cov')


def build_cov(name, openmp):
    out = os.path.join(COVDIR, name)
    shutil.rmtree(out, ignore_errors=True)
    os.makedirs(out)
    repo = build.REPO
    arch = ['-mavx2', '-DHAVE_AVX2'] if build.have_avx2() else ['-DNOHAVE_AVX2']
    common = ['-std=gnu11', '-fPIC', '-DKALIGN_PACKAGE_VERSION="3.4.1"', '-DKALIGN_PACKAGE_NAME="kalign"',
              '-I' + os.path.join(repo, 'lib', 'src'), '-I' + os.path.join(repo, 'lib', 'include'), '-I' + out] + arch
    open(os.path.join(out, 'version.h'), 'w').write('#define KALIGN_PACKAGE_VERSION "3.4.1"\n#define KALIGN_PACKAGE_NAME "kalign"\n')
    kflags = ['-O0', '-g1', '--coverage', '-fprofile-update=single', '-DKALIGN_VERIF', '-w'] + (['-fopenmp', '-DHAVE_OPENMP'] if openmp else [])
    sflags = ['-O2', '-g1', '-DKALIGN_VERIF', '-DSIM_COVERAGE', '-I' + build.SIM]
    jobs = []
    for n in build.lib_sources(repo):
        jobs.append((os.path.join(repo, 'lib', 'src', n + '.c'), os.path.join(out, 'k_' + n + '.o'), kflags))
    jobs.append((os.path.join(repo, 'src', 'run_kalign.c'), os.path.join(out, 'k_run_kalign.o'), kflags + ['-Dmain=kalign_cli_main']))
    jobs.append((os.path.join(repo, 'src', 'parameters.c'), os.path.join(out, 'k_parameters.o'), kflags))
    for s in build.SIM_SRC:
        jobs.append((os.path.join(build.SIM, s), os.path.join(out, 's_' + s[:-2] + '.o'), sflags))
    jobs.append((os.path.join(build.SIM, 'omptest.c'), os.path.join(out, 's_omptest.o'), sflags + (['-fopenmp'] if openmp else [])))
    log = []
    with ThreadPoolExecutor(max_workers=16) as ex:
        rcs = list(ex.map(lambda j: build.run(['gcc'] + common + j[2] + ['-c', j[0], '-o', j[1]], log), jobs))
    wrap = ['-Wl,' + ','.join('--wrap=' + w for w in build.WRAPS)]
    rc = build.run(['gcc', '--coverage'] + [j[1] for j in jobs] + wrap + ['-lm', '-o', os.path.join(out, 'simrun')], log)
    if any(rcs) or rc:
        print(''.join(log)[-4000:])
        sys.exit(2)
    return os.path.join(out, 'simrun')


def cov_job(arg):
    prop, seed, i = arg
    mod = check.load_modules()[prop]
    rng = random.Random(gen.derive_seed(seed, prop, i))
    try:
        spec = mod.gen_spec(prop, rng, 'quick')
        results, V = check.execute(mod, spec, check._WS)
        return len(results)
    except Exception:
        return 0
    finally:
        check._WS.close()      # the simrun children write their .gcda when they exit


def run_prop(prop, secs, bins, seed):
    prefix = os.path.join(VERIF, 'run', 'cov', prop)
    shutil.rmtree(prefix, ignore_errors=True)
    os.makedirs(prefix)
    # objects live in /verif/build/cov/<name>/k_x.o ; gcda files go to <prefix>/<name>/k_x.gcda
    os.environ['GCOV_PREFIX'] = prefix
    os.environ['GCOV_PREFIX_STRIP'] = str(len(COVDIR.strip('/').split('/')))
    rundir = check.make_rundir('cov' + prop)
    ctx = multiprocessing.get_context('fork')
    pool = ctx.Pool(16, initializer=check._init_pool, initargs=(bins, rundir))
    t0 = time.time()
    runs = jobs = 0
    import threading
    sem = threading.Semaphore(48)

    def idx():
        i = 0
        while time.time() - t0 < secs:
            sem.acquire()
            yield (prop, seed, i)
            i += 1
    try:
        for n in pool.imap_unordered(cov_job, idx(), chunksize=1):
            sem.release()
            runs += n; jobs += 1
    finally:
        pool.terminate()
        pool.join()
    time.sleep(1.0)
    shutil.rmtree(rundir, ignore_errors=True)
    return prefix, jobs, runs


def gcov_dir(d, name):
    """returns {file: {line: count}}, {file: {function: (executed?, start_line)}}"""
    src = os.path.join(COVDIR, name)
    lines, funcs = {}, {}
    gd = os.path.join(d, name)
    if not os.path.isdir(gd):
        return lines, funcs
    for f in sorted(os.listdir(gd)):
        if not f.endswith('.gcda') or not f.startswith('k_'):
            continue
        gcno = os.path.join(src, f[:-5] + '.gcno')
        if not os.path.exists(os.path.join(gd, f[:-5] + '.gcno')):
            os.symlink(gcno, os.path.join(gd, f[:-5] + '.gcno'))
        r = subprocess.run(['gcov', '--json-format', '--stdout', os.path.join(gd, f)], capture_output=True, text=True, cwd=gd)
        if r.returncode != 0 or not r.stdout.strip():
            continue
        doc = json.loads(r.stdout)
        for fl in doc.get('files', []):
            fn = fl['file']
            if '/repo/' not in fn and build.REPO not in fn:
                continue
            if fn.endswith('.h'):
                continue
            key = os.path.relpath(fn, build.REPO)
            L = lines.setdefault(key, {})
            for ln in fl['lines']:
                L[ln['line_number']] = L.get(ln['line_number'], 0) + ln['count']
            F = funcs.setdefault(key, {})
            for fu in fl['functions']:
                nm = fu['name']
                if '._omp_fn' in nm:
                    continue
                F[nm] = (F.get(nm, (0, 0))[0] + fu['execution_count'], fu['start_line'])
    return lines, funcs


def merge(a, b):
    for f, L in b.items():
        A = a.setdefault(f, {})
        for k, v in L.items():
            if isinstance(v, tuple):
                A[k] = (A.get(k, (0, 0))[0] + v[0], v[1])
            else:
                A[k] = A.get(k, 0) + v
    return a


def main():
    a = sys.argv[1:]
    secs = float(a[0]) if a else 40
    mods = check.load_modules()
    props = a[1:] or sorted(mods)
    seed = int(os.environ.get('VERIF_SEED', check.DEFAULT_SEED))
    t = time.time()
    b_omp = build_cov('omp', True)
    b_ser = build_cov('ser', False)
    print('coverage builds: %.1fs' % (time.time() - t))
    bins = {'plain': b_omp, 'asan': b_omp, 'preempt': b_omp, 'serial': b_ser, 'valgrind': b_omp}
    total_l, total_f = {}, {}
    per = {}
    for prop in props:
        prefix, jobs, runs = run_prop(prop, secs, bins, seed)
        L, F = {}, {}
        for name in ('omp', 'ser'):
            l, f = gcov_dir(prefix, name)
            merge(L, l); merge(F, f)
        per[prop] = {'jobs': jobs, 'runs': runs, 'files': {f: [sum(1 for c in v.values() if c), len(v)] for f, v in sorted(L.items())}}
        merge(total_l, L); merge(total_f, F)
        hit = sum(x[0] for x in per[prop]['files'].values()); tot = sum(x[1] for x in per[prop]['files'].values())
        print('%s: %d jobs, %d runs, %d/%d lines (%.1f%%)' % (prop, jobs, runs, hit, tot, 100.0 * hit / max(1, tot)))
        shutil.rmtree(prefix, ignore_errors=True)
    out = os.path.join(VERIF, 'coverage')
    os.makedirs(out, exist_ok=True)
    files = {f: [sum(1 for c in v.values() if c), len(v)] for f, v in sorted(total_l.items())}
    never = {f: sorted(n for n, (c, _) in v.items() if c == 0) for f, v in sorted(total_f.items())}
    never = {f: v for f, v in never.items() if v}
    missed_lines = {f: compress(sorted(k for k, c in v.items() if not c)) for f, v in sorted(total_l.items())}
    rep = {'seconds_per_property': secs, 'seed': seed, 'per_property': per, 'total_files': files, 'functions_never_entered': never,
           'lines_never_executed': missed_lines,
           'repo_commit': subprocess.run(['git', '-C', build.REPO, 'rev-parse', '--short', 'HEAD'], capture_output=True, text=True).stdout.strip()}
    json.dump(rep, open(os.path.join(out, 'report.json'), 'w'), indent=1)
    with open(os.path.join(out, 'REPORT.md'), 'w') as f:
        hit = sum(x[0] for x in files.values()); tot = sum(x[1] for x in files.values())
        f.write('# Reach of the checks\' workloads in the kalign sources\n\n')
        f.write('Measured by `python3 vf/coverage.py %g` (gcc --coverage builds of the simulator, every variant of every job mapped onto them; '
                'quick-tier generators, %g s per property, seed %d, /repo at %s).  Not a check.\n\n' % (secs, secs, seed, rep['repo_commit']))
        f.write('Total: %d of %d executable lines (%.1f%%) in the files that are linked into simrun.\n\n' % (hit, tot, 100.0 * hit / max(1, tot)))
        f.write('| file | lines hit | of | % | ' + ' | '.join(props) + ' |\n|---|---|---|---|' + '---|' * len(props) + '\n')
        for fn, (h, n) in files.items():
            f.write('| %s | %d | %d | %.0f | ' % (fn, h, n, 100.0 * h / max(1, n)) +
                    ' | '.join('%.0f' % (100.0 * per[p]['files'].get(fn, [0, 1])[0] / max(1, per[p]['files'].get(fn, [0, 1])[1])) for p in props) + ' |\n')
        f.write('\n## Functions never entered\n\n')
        for fn, v in never.items():
            f.write('- `%s`: %s\n' % (fn, ', '.join(v)))
        f.write('\n## Lines never executed (ranges)\n\n')
        for fn, v in missed_lines.items():
            if v:
                f.write('- `%s`: %s\n' % (fn, v))
    print('wrote', os.path.join(out, 'REPORT.md'), 'total %.1f%%' % (100.0 * hit / max(1, tot)))
    shutil.rmtree(COVDIR, ignore_errors=True)
    shutil.rmtree(os.path.join(VERIF, 'run', 'cov'), ignore_errors=True)
    return 0


def compress(nums):
    out, i = [], 0
    while i < len(nums):
        j = i
        while j + 1 < len(nums) and nums[j + 1] <= nums[j] + 2:
            j += 1
        out.append('%d' % nums[i] if i == j else '%d-%d' % (nums[i], nums[j]))
        i = j + 1
    return ' '.join(out)


if __name__ == '__main__':
    sys.exit(main())
