#!/bin/bash
# run every quick check under several seeds (false-alarm hunt on the unchanged tree); usage: seed_sweep.sh <seed>...
cd "$(dirname "$0")/.." || exit 2
rc=0
for s in "$@"; do
  for p in C01 C02 C04 C05 C06 C10 C15 C16; do
    out=$(VERIF_SEED=$s python3 vf/check.py $p quick 2>&1); e=$?
    echo "seed=$s $p exit=$e $(echo "$out" | grep -E "quick:" | cut -c1-160)"
    if [ $e -ne 0 ]; then rc=1; echo "$out" | grep -E "VIOLATION|candidate|UNCONFIRMED|HARNESS|minimised" | cut -c1-600; fi
  done
done
exit $rc
