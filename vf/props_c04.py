"""C04: the result depends only on names and residues, not on how they are presented.

The same records reach kalign (a) as one bare FASTA file (canonical presentation P0) and (b) as a
seeded re-presentation: 1-4 sources (files and/or stdin) in concatenation order, each in FASTA,
aligned FASTA, MSF or Clustal written by independent emitters, with column-consistent random gap
insertion (up to mostly-gap alignments), line widths, blank lines, CRLF, trailing blanks, delivered
through the simulated file layer with seeded read chunking, through the library path or the CLI.
Oracle: parsed output rows (names, gapped rows) of (b) == those of (a)."""
import copy
import gen, plans, oracles, parsers

RULE = 'each job = one record set x one configuration, executed for the canonical single-FASTA presentation and for 2-4 seeded re-presentations (formats fasta/aligned fasta/msf/clu by independent emitters, gap fraction 0-0.95, widths 1-500, blank lines, CRLF, 1-4 sources incl. stdin, chunk modes 0-3, library and CLI paths); distinct_nontrivial = distinct (record-set hash, presentation signature) where the presentation differs from the canonical one in at least format, gaps, wrapping or source count'
ASSUMPTIONS = ['presentations are generated well-formed for their format; names are distinct and drawn from [A-Za-z0-9_.|-]',
               'record order is preserved across sources (order independence is C03, not applicable here)']


def variants(prop, tier):
    return ['plain', 'asan']


def gen_presentation(rng, n, canonical=False, path='LIB'):
    if canonical:
        return {'path': path, 'sources': [{'where': 'file', 'fmt': 'fasta', 'recs': list(range(n)), 'width': 0, 'gapfrac': 0.0, 'gapsym': '-', 'blank': 0, 'crlf': 0, 'trail': '', 'seed': 0}], 'chunk_mode': 0}
    k = rng.choice([1, 1, 2, 2, 3, 4])
    k = min(k, n)
    cuts = sorted(rng.sample(range(1, n), k - 1)) if k > 1 else []
    if k > 1 and n > 512 and rng.random() < 0.5:
        cuts = sorted(set(cuts[1:] + [512]))      # a source that ends exactly at the growth step of the sequence array
        k = len(cuts) + 1
    bounds = [0] + cuts + [n]
    path = rng.choice(['LIB', 'LIB', 'CLI'])
    sources = []
    for i in range(k):
        recs = list(range(bounds[i], bounds[i + 1]))
        fmt = rng.choice(['fasta', 'afasta', 'msf', 'clu'])
        s = {'where': 'file', 'fmt': fmt, 'recs': recs,
             'width': rng.choice([0, 1, 7, 10, 50, 60, 61, 80, 500]) if fmt in ('fasta', 'afasta') else rng.choice([10, 50, 60, 100, 0, 0, 1000, 5000]),
             'gapfrac': rng.choice([0.0, 0.05, 0.3, 0.6, 0.9, 0.95]) if fmt != 'fasta' else rng.choice([0.0, 0.0, 0.1]),
             'gapsym': rng.choice({'fasta': '-', 'afasta': '-.', 'msf': '.~-', 'clu': '-'}[fmt]),
             'blank': rng.choice([0, 0, 1, 3]) if fmt in ('fasta', 'afasta') else 0,
             'ragged': 1 if (fmt in ('clu', 'msf') and rng.random() < 0.3) else 0, 'counts': 1 if (fmt == 'clu' and rng.random() < 0.15) else 0, 'cons': 1 if (fmt == 'clu' and rng.random() < 0.2) else 0,
             'crlf': 1 if rng.random() < 0.15 else 0, 'trail': rng.choice(['', '', ' ', '  \t']) if fmt in ('fasta', 'afasta') else '',
             'seed': rng.getrandbits(32)}
        sources.append(s)
    for s_ in sources:
        if rng.random() < 0.1:
            s_['where'] = 'pipe'      # a path that is not a regular file (named pipe, <(...), /proc): readable, stat() says size 0, no seeking
    if rng.random() < 0.08:
        # a split in which one of the sources holds no record at all (an empty file among the inputs)
        sources.insert(rng.randrange(len(sources) + 1), {'where': 'file', 'fmt': 'fasta', 'recs': [], 'width': 0, 'gapfrac': 0.0, 'gapsym': '-', 'blank': 0, 'crlf': 0, 'trail': '', 'seed': 0, 'empty': 1})
    if sources[0].get('empty'):
        pass
    elif path == 'CLI' and rng.random() < 0.4:
        sources[0]['where'] = 'stdin'         # stdin is always read first by the CLI
    elif path == 'LIB' and rng.random() < 0.15:
        sources[0]['where'] = 'stdin'
    return {'path': path, 'sources': sources, 'chunk_mode': rng.randrange(4)}


def gen_spec(prop, rng, tier):
    wl = gen.gen_workload(rng, weights=[12, 40, 20, 4, 10, 9, 5])
    if rng.random() < 0.04:
        wl = gen.gen_workload(rng, profile=rng.choice(['many', 'boundary', 'manylines', 'seqcap']))
    # C04's premise: names and residues; keep names free of blanks and distinct
    n = len(wl['seqs'])
    fasta_only = rng.random() < 0.12
    if fasta_only:
        # header lines far beyond any plausible line buffer (only FASTA carries names of any length)
        wl['names'] = [gen.rand_seq(rng, gen.NAME_SAFE, rng.choice([300, 1100, 2500])) + '.%d' % i for i in range(n)]
    spec = {'kind': 'C04', 'prop': 'C04', 'wl': wl, 'nthreads': rng.choice([1, 1, 2, 4]), 'world': gen.gen_world(rng, calm=True),
            'pres': [gen_presentation(rng, n) for _ in range(rng.choice([2, 3, 4]) if tier == 'quick' else rng.choice([4, 6, 8]))]}
    if fasta_only:
        for p in spec['pres']:
            for src in p['sources']:
                if src['fmt'] in ('msf', 'clu'):
                    src['fmt'] = 'afasta'; src['gapsym'] = '-'; src['width'] = rng.choice([0, 60, 500])
    if rng.random() < 0.15:
        spec['_variant'] = 'asan'      # a share of the jobs runs on the ASan+UBSan build: a presentation that corrupts memory quietly
    return spec


def render_source(wl, src):
    """bytes of one source in its format (independent emitters; column-consistent gap insertion)"""
    import random
    rng = random.Random(src['seed'])
    if not src['recs']:
        return b''
    names = [wl['names'][i].encode('latin-1') for i in src['recs']]
    seqs = [wl['seqs'][i] for i in src['recs']]
    fmt = src['fmt']
    sym = src['gapsym']
    if fmt == 'fasta' and src['gapfrac'] == 0:
        rows = [s.encode('latin-1') for s in seqs]
    else:
        # pad every record to a common width with gaps at random positions
        maxlen = max(len(s) for s in seqs)
        if fmt == 'fasta':
            # unaligned FASTA with stray gap characters: widths may differ
            rows = []
            for s in seqs:
                r = []
                for c in s:
                    if rng.random() < src['gapfrac']:
                        r.append(sym)
                    r.append(c)
                rows.append(''.join(r).encode('latin-1'))
        else:
            gf = src['gapfrac']
            L = max(maxlen + (1 if all(len(s) == maxlen for s in seqs) and gf > 0 else 0), int(maxlen / max(0.05, 1.0 - gf)))
            if gf == 0:
                L = maxlen
            rows = []
            for s in seqs:
                pos = sorted(rng.sample(range(L), len(s)))
                r = [sym] * L
                for p, c in zip(pos, s):
                    r[p] = c
                rows.append(''.join(r).encode('latin-1'))
            # remove columns that are gaps in every row?  No: all-gap columns are legal presentation too.
    if fmt in ('fasta', 'afasta'):
        return parsers.emit_fasta(names, rows, width=src['width'], blank_every=src['blank'], crlf=bool(src['crlf']), trail=src['trail'].encode())
    if fmt == 'clu':
        hdr = rng.choice([b'CLUSTAL W (1.83) multiple sequence alignment', b'CLUSTAL O(1.2.4) multiple sequence alignment', b'Kalign (3.4.1) multiple sequence alignment'])
        # blanks only: kalign cuts every input line at the first control character (a tab included), and a tab
        # is not "padding" in any of the three formats
        rag = [rng.choice([b' ', b'  ', b'     ', b'   ', b'          ']) for _ in range(7)] if src.get('ragged') else None
        return parsers.emit_clustal(names, rows, width=src['width'], header=hdr, crlf=bool(src['crlf']), pad=rng.choice([1, 2, 6]), ragged=rag, counts=bool(src.get('counts')), cons=bool(src.get('cons')))
    kind = 'P' if wl['kind'] == 'protein' else 'N'
    rag = [rng.choice([b' ', b'  ', b'      ', b'   ']) for _ in range(5)] if src.get('ragged') else None
    return parsers.emit_msf(names, rows, width=src['width'], group=rng.choice([0, 10]), kind=kind, crlf=bool(src['crlf']), gapch=sym.encode(), ragged=rag,
                            sep_blank=rng.random() >= 0.3)


def plan_for(spec, pres, tag):
    wl = spec['wl']
    w = dict(spec['world'])
    w['chunk_mode'] = pres['chunk_mode']
    w['stop_on_fail'] = 1
    p = plans.base_plan(tag, w)
    files = []
    have_stdin = False
    for k, src in enumerate(pres['sources']):
        data = render_source(wl, src)
        if src['where'] == 'stdin':
            p.stdin = ('pipe', data)
            have_stdin = True
            files.append(None)
        else:
            fn = 'src%d.%s' % (k, {'fasta': 'fa', 'afasta': 'afa', 'msf': 'msf', 'clu': 'aln'}[src['fmt']])
            p.files.append((fn, 'p' if src['where'] == 'pipe' else 'f', data))
            files.append(fn)
    if not have_stdin:
        p.stdin = ('tty', b'')
    ix = {'R': []}
    if pres['path'] == 'LIB':
        for fn in files:
            ix['R'].append(p.op_R(0, fn, 1))
        ix['X'] = p.op_X(0, spec['nthreads'], wl['type'], wl['gpo'], wl['gpe'], wl['tgpe'])
        ix['W'] = p.op_W(0, 'out.fa', 'fasta')
        ix['F'] = p.op_simple('F', 0)
    else:
        fl = [f for f in files if f]
        args = plans.cli_args(wl, spec['nthreads'], 'fasta', fl[0] if fl and len(fl) == 1 else None, 'out.fa', quiet=True, extra=(fl if len(fl) != 1 else []))
        ix['CLI'] = p.op_CLI(args)
    ix['L'] = p.op_simple('L')
    return p, ix


def plans_of(spec):
    n = len(spec['wl']['seqs'])
    out = []
    # one canonical run per entry path in use (CLI and library are compared with themselves)
    for path in ('LIB', 'CLI'):
        if path == 'LIB' or any(pr['path'] == path for pr in spec['pres']):
            p, ix = plan_for(spec, gen_presentation(None, n, canonical=True, path=path), 'p0' + path)
            out.append(('p0' + path, spec.get('_variant', 'plain'), p, ix))
    for k, pres in enumerate(spec['pres']):
        p, ixk = plan_for(spec, pres, 'p%d' % (k + 1))
        out.append(('p%d' % (k + 1), spec.get('_variant', 'plain'), p, ixk))
    return out


def _outcome(res, ix):
    """('ok', rows) | ('rejected', message) | ('crash', class)"""
    if res.crash_class() == 'SLOW':
        return ('slow', '')
    if res.crashed():
        return ('crash', '%s at %s' % (res.crash_class(), res.crash_site()))
    if 'CLI' in ix:
        o = res.op(ix['CLI'])
        if o is None:
            return ('crash', 'no result')
        if o.rc != 0:
            return ('rejected', (o.out.get('stderr', b'')[:300]).decode('latin-1'))
        data = o.out.get('file:out.fa')
    else:
        for i in ix['R']:
            o = res.op(i)
            if o is None or o.rc != 0:
                err = b''.join(x.out.get('stderr', b'') for x in res.ops.values())
                return ('rejected', 'kalign_read_input failed: ' + err[:300].decode('latin-1'))
        x = res.op(ix['X'])
        if x is None or x.rc != 0:
            err = b''.join(o.out.get('stderr', b'') for o in res.ops.values())
            return ('rejected', 'kalign_run failed: ' + err[:300].decode('latin-1'))
        wo = res.op(ix['W'])
        if wo is None or wo.rc != 0:
            return ('rejected', 'kalign_write_msa failed')
        data = wo.out.get('file:out.fa')
    if data is None:
        return ('rejected', 'no output written')
    rows, _ = parsers.parse_fasta(data, wrap=0)
    return ('ok', rows)


def pres_signature(pres):
    return '%s|%d|%s' % (pres['path'], pres['chunk_mode'], ';'.join('%s:%s:%d:%s:%s:%d:%d:%d%s' % (s['where'], s['fmt'], s['width'], s['gapfrac'], s['gapsym'], s['blank'], s['crlf'], len(s['recs']), (':ragged' if s.get('ragged') else '') + (':counts' if s.get('counts') else '') + (':cons' if s.get('cons') else '')) for s in pres['sources']))


def judge(spec, results):
    V = []
    pl = spec['_plans']
    bytag = {t[0]: t for t in pl}
    bases = {}
    for path in ('LIB', 'CLI'):
        if 'p0' + path in results:
            bases[path] = _outcome(results['p0' + path], bytag['p0' + path][3])

    def add(cls, detail, tag):
        V.append({'prop': 'C04', 'cls': cls, 'detail': detail, 'sig': 'C04:' + cls, 'tag': tag})

    for tag, r in results.items():
        for cls, detail in r.viol:
            V.append({'prop': cls.split('_', 1)[0], 'cls': cls, 'detail': detail, 'sig': '%s:%s' % (cls.split('_', 1)[0], cls), 'tag': tag})
    for path, base in bases.items():
        if base[0] == 'crash':
            V.append({'prop': 'X', 'cls': 'X_REF_CRASH', 'detail': base[1], 'sig': 'X:REF_CRASH', 'tag': 'p0' + path})
    for k, pres in enumerate(spec['pres']):
        tag = 'p%d' % (k + 1)
        ix = bytag[tag][3]
        base = bases[pres['path']]
        if base[0] != 'ok':
            continue     # the canonical presentation itself is not accepted: nothing to compare with
        oc = _outcome(results[tag], ix)
        if oc[0] == 'slow':
            continue
        desc = pres_signature(pres)
        if oc[0] == 'crash':
            add('C04_CRASH_ON_PRESENTATION', 'canonical presentation aligned, this presentation ended with %s [%s]' % (oc[1], desc), tag)
        elif oc[0] == 'rejected':
            msg = oc[1]
            why = 'OTHER'
            if 'Only 1 sequence was found' in msg:
                why = 'SINGLE_RECORD_SOURCE'
            elif 'Detected protein sequences but' in msg or 'Detected DNA sequences but' in msg:
                why = 'KIND_FLIPPED'
            elif 'different alphabets' in msg:
                why = 'KIND_DIFFERS_BETWEEN_SOURCES'
            elif 'Could not detect input' in msg or 'No sequences were found' in msg or 'No alignment' in msg:
                why = 'NOT_DETECTED'
            add('C04_REJECTED_' + why, 'canonical presentation aligned, this presentation was rejected: %s [%s]' % (msg.strip().replace('\n', ' / ')[:200], desc), tag)
        else:
            if oc[1] != base[1]:
                a, b = base[1], oc[1]
                if [x[0] for x in a] != [x[0] for x in b]:
                    why = 'NAMES' if len(a) == len(b) else 'ROWCOUNT'
                    if len(a) != len(b):
                        d = '%d rows vs %d rows' % (len(a), len(b))
                    else:
                        k0 = next(i for i in range(len(a)) if a[i][0] != b[i][0])
                        na, nb = a[k0][0], b[k0][0]
                        c0 = next((i for i in range(min(len(na), len(nb))) if na[i] != nb[i]), min(len(na), len(nb)))
                        d = 'row %d is named %r (%d characters) vs %r (%d characters), first difference at character %d' % (k0, na[max(0, c0 - 12):c0 + 12], len(na), nb[max(0, c0 - 12):c0 + 12], len(nb), c0)
                elif [parsers.degap(x[1]) for x in a] != [parsers.degap(x[1]) for x in b]:
                    why = 'RESIDUES'; d = 'residues differ'
                else:
                    why = 'ALIGNMENT'
                    k0 = next(i for i in range(len(a)) if a[i][1] != b[i][1])
                    d = 'row %d: %r vs %r' % (k0, a[k0][1][:60], b[k0][1][:60])
                add('C04_DIFFERENT_' + why, 'same records, different result: %s [%s]' % (d, desc), tag)
    return V


def nontrivial_keys(spec, results):
    h = plans.wl_hash(spec['wl'])
    return ['%s:%s' % (h, pres_signature(p)) for p in spec['pres']]


def job_stats(spec, results):
    st = {'formats': {}, 'sources': {}, 'paths': {}, 'stdin_sources': 0}
    for p in spec['pres']:
        st['paths'][p['path']] = st['paths'].get(p['path'], 0) + 1
        st['sources'][str(len(p['sources']))] = st['sources'].get(str(len(p['sources'])), 0) + 1
        for s in p['sources']:
            st['formats'][s['fmt']] = st['formats'].get(s['fmt'], 0) + 1
            if s['where'] == 'stdin':
                st['stdin_sources'] += 1
    return st


def summary(spec, results=None):
    wl = spec['wl']
    return {'kind': wl['kind'], 'numseq': len(wl['seqs']), 'len_max': max(len(x) for x in wl['seqs']), 'type': wl['type'],
            'presentations': [pres_signature(p) for p in spec['pres']]}


def shrinks(spec, viol):
    tag = viol.get('tag', '')
    if tag.startswith('p') and not tag.startswith('p0') and len(spec['pres']) > 1:
        k = int(tag[1:]) - 1
        s = copy.deepcopy(spec); s['pres'] = [spec['pres'][k]]
        yield s
    wl = spec['wl']
    n = len(wl['seqs'])
    # dropping records must keep the source partition consistent
    def drop(keep):
        s = copy.deepcopy(spec)
        remap = {old: new for new, old in enumerate(keep)}
        s['wl']['seqs'] = [wl['seqs'][i] for i in keep]; s['wl']['names'] = [wl['names'][i] for i in keep]
        for p in s['pres']:
            srcs = []
            for src in p['sources']:
                src['recs'] = [remap[i] for i in src['recs'] if i in remap]
                if src['recs'] or src.get('empty'):
                    srcs.append(src)
            p['sources'] = srcs
            if not any(src['recs'] for src in srcs):
                return None
        return s
    chunk = n // 2
    while chunk >= 1:
        for st in range(0, n, chunk):
            keep = [i for i in range(n) if not (st <= i < st + chunk)]
            if len(keep) >= 2:
                s = drop(keep)
                if s:
                    yield s
        chunk //= 2
    for frac in (2, 4):
        s = copy.deepcopy(spec)
        s['wl']['seqs'] = [x[:max(1, len(x) - len(x) // frac)] for x in wl['seqs']]
        if s['wl']['seqs'] != wl['seqs']:
            yield s
    for k, p in enumerate(spec['pres']):
        if p['chunk_mode']:
            s = copy.deepcopy(spec); s['pres'][k]['chunk_mode'] = 0
            yield s
        if p['path'] != 'LIB':
            s = copy.deepcopy(spec); s['pres'][k]['path'] = 'LIB'
            yield s
        if len(p['sources']) > 1:
            # merge all records into the first source
            s = copy.deepcopy(spec)
            s['pres'][k]['sources'] = [dict([x for x in p['sources'] if x['recs']][0], recs=list(range(n)))]
            yield s
        for j, src in enumerate(p['sources']):
            for key, val in (('where', 'file'), ('crlf', 0), ('blank', 0), ('trail', ''), ('ragged', 0), ('counts', 0), ('cons', 0), ('gapfrac', 0.0), ('width', 60), ('fmt', 'afasta'), ('fmt', 'fasta')):
                if key not in src:
                    continue
                if src[key] != val:
                    s = copy.deepcopy(spec); s['pres'][k]['sources'][j][key] = val
                    if key == 'fmt':
                        s['pres'][k]['sources'][j]['gapsym'] = '-'
                    yield s
    if wl['gpo'] >= 0:
        s = copy.deepcopy(spec); s['wl']['gpo'] = s['wl']['gpe'] = s['wl']['tgpe'] = -1.0
        yield s
    if wl['type'] != 5:
        s = copy.deepcopy(spec); s['wl']['type'] = 5
        yield s


def harden(spec):
    """the same job on the ASan+UBSan build (used by the gate for erratic candidates)"""
    s = copy.deepcopy(spec)
    s['_variant'] = 'asan'
    return s
