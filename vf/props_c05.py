"""C05: no memory error, crash or hang on any input; failures are reported as failures.

Job = one scenario (input bytes x option string x stdin kind x output path) executed through the real CLI
main (and, for a share of jobs, the library calls / the array API) under ASan+UBSan with junk-filled heap:
  - the fault-free run,
  - EVERY single-fault placement of the gating I/O fault kinds for that scenario (stat/fopen errors on the
    input, read EIO at a set of offsets covering every read of the fault-free run, fopen errors on the
    output, stdin kinds),
  - the same fault-free scenario on the plain build with different heap garbage (uninitialised-memory
    dependence shows as a different outcome).
Oracle per run: outcome is OK (exit 0 + valid alignment of the sequences it read) or FAIL (non-zero exit +
message); never a signal, sanitizer report, hang, leak on an exit-0 run, or garbage-dependent result."""
import copy, random
import gen, plans, oracles, parsers

RULE = 'each job = one scenario (well-formed or structurally mutated input in fasta/msf/clu x option string x stdin kind x output path) run fault-free and under every single-fault placement of {stat ENOENT/EACCES, fopen(r) ENOENT/EACCES/EMFILE + directory-as-input, read EIO at offsets covering each read, fopen(w) ENOENT/EACCES/EISDIR/EROFS, stdin tty/closed/empty/data}, on the ASan+UBSan build, plus once on the plain build with other heap garbage; distinct_nontrivial = distinct (input hash, argv hash, fault placement) whose run reached kalign code past option parsing'
ASSUMPTIONS = ['allocation failure and write-side faults after a successful open are injected only as non-gating diagnostics',
               'a never-closing stdin is not generated (waiting for a writer is not a hang of kalign)',
               'hang = wall-clock watchdog (20 s per run) or scheduler step budget']

STOP_JOB_AFTER_TIMEOUT = True

GATING_FAULTS = ['stat:ENOENT', 'stat:EACCES', 'openr:ENOENT', 'openr:EACCES', 'openr:EMFILE', 'input_is_dir',
                 'openw:ENOENT', 'openw:EACCES', 'openw:EISDIR', 'openw:EROFS', 'stdin:closed', 'stdin:empty', 'stdin:data', 'read:EIO']


QUICK_SLOW_JOB = (8.0, 2)      # quick tier: if a run of the scenario takes more than 8 s, stop after base and basej


def variants(prop, tier):
    return ['asan', 'plain', 'valgrind']


# ---------------------------------------------------------------- inputs

def render(rng, wl, fmt):
    names = [n.encode('latin-1') for n in wl['names']]
    if fmt == 'fasta':
        return parsers.emit_fasta(names, [s.encode('latin-1') for s in wl['seqs']], width=rng.choice([0, 60, 80]))
    L = max(len(s) for s in wl['seqs'])
    rows = []
    for s in wl['seqs']:
        pos = sorted(rng.sample(range(L), len(s)))
        r = ['-'] * L
        for p, c in zip(pos, s):
            r[p] = c
        rows.append(''.join(r).encode('latin-1'))
    if fmt == 'clu':
        return parsers.emit_clustal(names, rows, width=60)
    return parsers.emit_msf(names, rows, width=50, kind='P' if wl['kind'] == 'protein' else 'N', gapch=b'.')


MUTATIONS = ['byteflip', 'nonascii', 'control', 'del_line', 'dup_line', 'swap_lines', 'no_first_gt', 'data_before_header', 'punct_before_header',
             'empty_record', 'header_only', 'single_record', 'huge_name', 'foreign_letters', 'digits', 'many_identical', 'zero_len', 'mixed_formats',
             'truncate', 'msf_name_at_eol', 'random_bytes', 'format_words', 'empty_file', 'newlines_only', 'gt_only', 'long_line', 'extra_block_row', 'block_grows', 'missing_block_row', 'nul_bytes', 'only_gaps', 'crlf', 'tabs']


def mutate_input(rng, data, wl, fmt, which):
    lines = data.split(b'\n')
    def pick_seq_line():
        idx = [i for i, l in enumerate(lines) if l and not l.startswith(b'>') and not l.startswith(b'!!') and b'Name:' not in l]
        return rng.choice(idx) if idx else None
    if which == 'byteflip':
        b = bytearray(data)
        for _ in range(rng.randint(1, 8)):
            if b:
                b[rng.randrange(len(b))] = rng.randrange(256)
        return bytes(b)
    if which == 'nonascii':
        i = pick_seq_line()
        if i is None:
            return data + bytes([0xff])
        l = bytearray(lines[i])
        for _ in range(rng.randint(1, 5)):
            l.insert(rng.randrange(len(l) + 1), rng.randrange(0x80, 0x100))
        lines[i] = bytes(l)
        return b'\n'.join(lines)
    if which == 'control':
        b = bytearray(data)
        for _ in range(rng.randint(1, 4)):
            b.insert(rng.randrange(len(b) + 1), rng.choice([1, 7, 8, 9, 11, 12, 13, 27, 127]))
        return bytes(b)
    if which == 'nul_bytes':
        b = bytearray(data)
        for _ in range(rng.randint(1, 3)):
            b.insert(rng.randrange(len(b) + 1), 0)
        return bytes(b)
    if which == 'del_line' and len(lines) > 1:
        del lines[rng.randrange(len(lines))]
        return b'\n'.join(lines)
    if which == 'dup_line':
        i = rng.randrange(len(lines)); lines.insert(i, lines[i])
        return b'\n'.join(lines)
    if which == 'swap_lines' and len(lines) > 2:
        i, j = rng.randrange(len(lines)), rng.randrange(len(lines)); lines[i], lines[j] = lines[j], lines[i]
        return b'\n'.join(lines)
    if which == 'no_first_gt':
        return data[1:] if data.startswith(b'>') else data
    if which == 'data_before_header':
        return b'ACGTACGT\n' + data
    if which == 'punct_before_header':
        return rng.choice([b'---\n', b'.\n', b'*;\n', b'# comment\n']) + data
    if which == 'empty_record':
        return data + b'>empty_%d\n' % rng.randrange(100) + (b'\n' if rng.random() < 0.5 else b'')
    if which == 'header_only':
        return b''.join(b'>' + n.encode('latin-1') + b'\n' for n in wl['names'])
    if which == 'single_record':
        return b'>' + wl['names'][0].encode('latin-1') + b'\n' + wl['seqs'][0].encode('latin-1') + b'\n'
    if which == 'huge_name':
        big = gen.rand_seq(rng, gen.NAME_SAFE, rng.choice([300, 1000, 10000])).encode()
        if fmt == 'fasta':
            return data.replace(b'>', b'>' + big, 1)
        return data.replace(wl['names'][0].encode('latin-1'), big.replace(b' ', b'_'))
    if which == 'foreign_letters':
        i = pick_seq_line()
        if i is None:
            return data
        l = bytearray(lines[i])
        pool = b'XxJjOoUuZzBb*' if wl['kind'] == 'protein' else b'XxEeFfIiLlPpQqZzJjOo'
        for _ in range(rng.randint(1, 6)):
            if l:
                l[rng.randrange(len(l))] = rng.choice(pool)
        lines[i] = bytes(l)
        return b'\n'.join(lines)
    if which == 'digits':
        i = pick_seq_line()
        if i is None:
            return data
        l = bytearray(lines[i])
        for _ in range(rng.randint(1, 6)):
            l.insert(rng.randrange(len(l) + 1), rng.choice(b'0123456789 \t'))
        lines[i] = bytes(l)
        return b'\n'.join(lines)
    if which == 'many_identical':
        s = wl['seqs'][0].encode('latin-1')[:60]
        return b''.join(b'>id%d\n%s\n' % (i, s) for i in range(rng.choice([101, 150, 300])))
    if which == 'zero_len':
        k = rng.randrange(len(wl['names']))
        out = []
        for i, (n, s) in enumerate(zip(wl['names'], wl['seqs'])):
            out.append(b'>' + n.encode('latin-1') + b'\n' + (b'' if i == k else s.encode('latin-1') + b'\n'))
        return b''.join(out)
    if which == 'mixed_formats':
        other = render(rng, wl, rng.choice(['fasta', 'msf', 'clu']))
        return data + other if rng.random() < 0.5 else other[:len(other) // 2] + data
    if which == 'truncate':
        return data[:rng.randrange(len(data) + 1)]
    if which == 'empty_file':
        return b''
    if which == 'newlines_only':
        return b'\n' * rng.randint(1, 200)
    if which == 'gt_only':
        return b'>\n' * rng.randint(1, 5)
    if which == 'long_line':
        i = pick_seq_line()
        if i is None:
            return data
        # longer than any plausible line buffer (1 kB, 4 kB), short enough that the O(L^2) alignment of
        # the resulting sequence stays far below the watchdog even under ASan and machine load
        lines[i] = (lines[i] * rng.choice([50, 400]))[:rng.choice([1500, 5000, 9000])]
        return b'\n'.join(lines)
    if which == 'extra_block_row' and fmt != 'fasta':
        i = pick_seq_line()
        if i is None:
            return data
        lines.insert(i, b'intruder   ' + b'ACGT' * 5)
        return b'\n'.join(lines)
    if which == 'block_grows' and fmt != 'fasta':
        # a later block with hundreds of rows more than the first one (past the next growth step of the row array)
        k = rng.choice([510, 520, 600, 1030])
        alpha = b'ACGT' if wl['kind'] != 'protein' else b'ACDEFGHIKL'
        extra = b'\n'.join(b'x%d    ' % j + bytes(rng.choice(alpha) for _ in range(12)) for j in range(k))
        return data.rstrip(b'\n') + b'\n\n' + extra + b'\n'
    if which == 'missing_block_row' and fmt != 'fasta':
        i = pick_seq_line()
        if i is not None:
            del lines[i]
        return b'\n'.join(lines)
    if which == 'only_gaps':
        return b''.join(b'>' + n.encode('latin-1') + b'\n' + b'-' * rng.randint(1, 80) + b'\n' for n in wl['names'])
    if which == 'crlf':
        return data.replace(b'\n', b'\r\n')
    if which == 'tabs':
        return data.replace(b' ', b'\t')
    if which == 'random_bytes':
        # "whatever bytes are in the input files": no structure at all, or structure with a random tail
        blob = bytes(rng.randrange(256) for _ in range(rng.choice([1, 16, 300, 5000])))
        return blob if rng.random() < 0.5 else data[:rng.randrange(len(data) + 1)] + blob
    if which == 'format_words':
        # the words the format sniffer looks for, in the wrong places
        w = rng.choice([b'CLUSTAL W', b'MSF:', b'!!AA_MULTIPLE_ALIGNMENT', b'multiple sequence alignment', b'//', b'Name: x Len: 3', b'>'])
        i = rng.randrange(len(lines) + 1)
        lines.insert(i, w)
        return b'\n'.join(lines)
    if which == 'msf_name_at_eol':
        # an MSF header line that ends right after the name (fields in another order)
        out = []
        for l in lines:
            if b'Name:' in l and b'Len:' in l:
                parts = l.split()
                try:
                    nm = parts[parts.index(b'Name:') + 1]
                    l = b' Len: 5  Check: 1  Weight: 1.00  Name: ' + nm
                except (ValueError, IndexError):
                    pass
            out.append(l)
        return b'\n'.join(out)
    if which == 'name_with_blanks':
        # only meaningful for FASTA output (in msf/clu the name ends at the first blank by definition)
        return data.replace(b'>', b'> a name with\tblanks ', 1) if fmt == 'fasta' else data
    return data


BAD_ARGS = [['--frobnicate'], ['-n'], ['-n', '0'], ['-n', '-3'], ['-n', 'abc'], ['-n', '2147483647'], ['-n', '99999999999999999999'], ['--format', 'xml'], ['--format', ''],
            ['--type', 'klingon'], ['--type', ''], ['--gpo', 'abc'], ['--gpo', '-5'], ['--gpo', '1e38'], ['--gpe', 'nan'], ['--tgpe', 'inf'], ['--gpo', '0', '--gpe', '0', '--tgpe', '0'],
            ['-o'], ['--set', '3'], ['-q', '-q'], ['--in'], ['--type', 'protein'], ['--type', 'dna'], ['--type', 'rna'], ['--type', 'divergent'], ['--type', 'internal'],
            ['-f', 'fa'], ['-f', 'clustal'], ['--output', 'out.afa', '-o', 'other.afa'], ['--', 'in.fa'], ['-i', 'in.fa', '-i', 'in.fa'], ['-nq'], ['-h'], ['-v'], ['--showw']]


OPT_NAMES = ['--format', '-f', '--type', '--gpo', '--gpe', '--tgpe', '-n', '--nthreads', '--set', '-i', '--in', '--input', '--infile', '-o', '--out', '--output', '--outfile',
             '-q', '--quiet', '--showw', '-h', '--help', '-v', '-V', '--version', '--changename', '--reformat', '-x', '--', '-', '---', '--gp', '--t', '-nthreads', '-format']
OPT_VALUES = ['', ' ', '0', '1', '-1', '4', '64', '100000', '2147483648', '-2147483649', '1e9', '1e10', '0.0', '-0.0', '5.5', 'nan', 'inf', '-inf', '0x10', '1,5', 'abc', 'fasta', 'fa', 'msf', 'clu',
              'clustal', 'FASTA', 'mSf', 'dna', 'rna', 'protein', 'divergent', 'internal', 'DNA', 'prot', 'in.dat', 'missing.fa', 'res', 'out.afa', 'res/out.afa', '/', '.', '..', 'a' * 300, 'b' * 520, 'c' * 700, 'd' * 3000, './' * 350 + 'in.dat', '%s%n%d', '50%similar.msf', 'cov%c.msf', '\xff\xfe', '-q', '--gpo']


CUT = b'\x01NEXT-FILE\x01'


def pieces_of(data):
    return data.split(CUT + b'\n')


def random_args(rng):
    a = []
    for _ in range(rng.randint(1, 5)):
        a.append(rng.choice(OPT_NAMES))
        if rng.random() < 0.7:
            a.append(rng.choice(OPT_VALUES))
    return a


def gen_huge_spec(rng):
    """one record of more than a million residues plus a short fragment of it: frames or integer types that grow with
    the input (VLAs, alloca, 16/32-bit lengths) meet a production-sized stack (8 MB in the non-ASan builds) here.  Plain
    build only, no fault placements: the point is the size"""
    kind = rng.choice(['dna', 'protein'])
    alpha = gen.DNA if kind == 'dna' else gen.PROT
    L = rng.choice([1050000, 1100000, 1200000, 1300000])
    unit = gen.rand_seq(rng, alpha, 5000)
    big = (unit * (L // len(unit) + 1))[:L]
    p0 = rng.randrange(0, L - 300)
    frag = big[p0:p0 + rng.randint(60, 200)]
    wl = {'kind': kind, 'profile': 'huge', 'shape': 'pair', 'names': ['big', 'frag'], 'seqs': [big, frag], 'type': gen.T_UNDEF, 'gpo': -1.0, 'gpe': -1.0, 'tgpe': -1.0}
    data = gen.fasta_bytes(wl['names'], wl['seqs'])
    w = gen.gen_world(rng, calm=True); w['wall_limit'] = 120
    return {'kind': 'C05', 'prop': 'C05', 'cls': 'wellformed', 'mode': rng.choice(['cli', 'lib']), 'wl': wl, 'fmt_in': 'fasta', 'fmt_out': 'fasta', 'muts': [],
            'data': data.decode('latin-1'), 'nthreads': rng.choice([1, 2]), 'quiet': 1, 'world': w, 'junk2': rng.getrandbits(62), 'vg': 0, 'extra_args': [],
            'outpath': 'out.afa', 'faults': [], 'huge': 1}


def gen_spec(prop, rng, tier):
    if rng.random() < (0.0006 if tier == 'quick' else 0.002):
        return gen_huge_spec(rng)
    wl = gen.gen_workload(rng, weights=[25, 45, 12, 4, 2, 6, 6])
    if rng.random() < 0.03:
        wl = gen.gen_workload(rng, profile=rng.choice(['many', 'boundary', 'seqcap']))       # > 512 records: array growth in every reader
    if wl['profile'] in ('tiny', 'small') and rng.random() < 0.12:
        gen.force_exact_length(rng, wl)      # residue counts that sit exactly on the readers' buffer sizes
    vg = 1 if rng.random() < (0.02 if tier == 'quick' else 0.06) else 0
    if vg and tier == 'quick' and wl['profile'] in ('hirsch', 'kmeans', 'medium', 'ratio'):
        vg = 0                         # memcheck is ~30x slower: quick tier keeps to small inputs
    if vg and tier == 'quick' and max(len(x) for x in wl['seqs']) > 400:
        vg = 0                         # (also a small set with one record stretched to 1536 residues)
    if vg and tier != 'quick' and rng.random() < 0.5:
        # memcheck sample: also reach the parallel Hirschberg region (>= 500 columns)
        wl = gen.gen_workload(rng, profile='hirsch')
        wl['seqs'] = [x[:rng.randint(520, 640)] for x in wl['seqs'][:3]]; wl['names'] = wl['names'][:len(wl['seqs'])]
    fmt_in = rng.choice(['fasta', 'fasta', 'msf', 'clu'])
    data = render(rng, wl, fmt_in)
    cls = rng.choices(['wellformed', 'mutated', 'options'], [4, 5, 2])[0]
    muts = []
    if cls == 'mutated':
        for _ in range(rng.choice([1, 1, 2, 3])):
            m = rng.choice(MUTATIONS)
            if m == 'huge_name' and rng.random() < 0.3:
                m = 'name_with_blanks'
            data = mutate_input(rng, data, wl, fmt_in, m)
            muts.append(m)
        if len(data) > 200000:
            data = data[:200000]          # keep one scenario (x ~25 fault placements) affordable
        if tier == 'quick' and len(wl['seqs']) > 500 and len(data) > 50000:
            data = data[:50000]           # quick tier: hundreds of records AND a mutation that glues tens of kB into one record costs minutes under ASan
    mode = rng.choices(['cli', 'lib', 'arr'], [6, 3, 1])[0] if cls != 'options' else 'cli'
    if fmt_in == 'fasta' and mode != 'arr' and rng.random() < (0.8 if wl['profile'] == 'seqcap' else 0.2):
        # the records arrive in 2-3 sources (kalign a b c / several kalign_read_input calls into one object): a marker
        # line stands for "next file"; with the seqcap profile the first source often ends exactly at the array capacity
        starts = [i for i in range(1, len(data)) if data[i:i + 1] == b'>' and data[i - 1:i] == b'\n']
        if starts:
            cuts = set(rng.sample(starts, min(len(starts), rng.choice([1, 1, 2]))))
            if wl['profile'] == 'seqcap' and len(starts) >= 512 and rng.random() < 0.8:
                cuts = {starts[511]} | ({starts[1023]} if len(starts) >= 1024 and rng.random() < 0.5 else set())
            for c in sorted(cuts, reverse=True):
                data = data[:c] + CUT + b'\n' + data[c:]
            if rng.random() < 0.25:
                # one of the sources is an empty file (leading, in the middle, or last)
                where = rng.choice(['lead', 'mid', 'mid', 'last'])
                if where == 'lead':
                    data = CUT + b'\n' + data
                elif where == 'last':
                    data = data + CUT + b'\n'
                else:
                    data = data.replace(CUT + b'\n', CUT + b'\n' + CUT + b'\n', 1)
    fmt_out = rng.choice(['fasta', 'msf', 'clu']) if 'name_with_blanks' not in muts else 'fasta'
    nthreads = rng.choice([1, 2, 4, 8])
    spec = {'kind': 'C05', 'prop': 'C05', 'cls': cls, 'mode': mode, 'wl': wl, 'fmt_in': fmt_in, 'fmt_out': fmt_out, 'muts': muts,
            'data': data.decode('latin-1'), 'nthreads': nthreads, 'quiet': rng.choice([1, 1, 0]),
            'world': gen.gen_world(rng), 'junk2': rng.getrandbits(62), 'vg': vg, 'extra_args': [], 'outpath': rng.choice(['out.afa', 'out.afa', None, 'res/out.afa', 'res/out.afa', '50%similar.out', 'res/%n%s%s%s.x'])}
    if cls == 'options':
        spec['extra_args'] = rng.choice(BAD_ARGS)
        if rng.random() < 0.3:
            spec['extra_args'] = spec['extra_args'] + rng.choice(BAD_ARGS)
        if rng.random() < 0.4:
            spec['extra_args'] = random_args(rng)      # option strings from a grammar: any option x any value
    if mode == 'arr':
        # the array API takes raw residue strings: allow arbitrary bytes in them for the mutated class
        seqs = list(wl['seqs'])
        if cls == 'mutated':
            k = rng.randrange(len(seqs))
            b = bytearray(seqs[k].encode('latin-1'))
            for _ in range(rng.randint(1, 4)):
                if b:
                    b[rng.randrange(len(b))] = rng.choice([rng.randrange(256), ord('-'), ord('X'), ord('J'), ord('*'), 0x80, 0xff, ord(' ')])
            seqs[k] = b.decode('latin-1')
            if rng.random() < 0.2:
                seqs[rng.randrange(len(seqs))] = ''
        spec['arr_seqs'] = seqs
    if mode != 'arr' and rng.random() < 0.08:
        spec['pipe_in'] = 1
    elif mode != 'arr' and rng.random() < 0.06:
        # the output path is one of the inputs (re-align a file in place, or `kalign a.fa b.fa -o a.fa`): everything must
        # have been read before the output is opened
        spec['outpath'] = rng.choice(['in.dat'] + ['in%d.dat' % k for k in range(1, len(pieces_of(data)))])
    if mode == 'lib' and rng.random() < 0.3:
        # the other two public calls that take an msa: reformat_settings_msa (rename / unalign) and kalign_check_msa
        spec['libops'] = [rng.choice([['M', 1, 0], ['M', 1, 1], ['M', 0, 1], ['V', 0], ['V', 0], ['V', 1]]) for _ in range(rng.choice([1, 1, 2]))]
    spec['faults'] = enumerate_faults(spec, rng, pairs=0 if tier == 'quick' else 4)
    cost = sum(len(x) for x in wl['seqs']) * max(len(x) for x in wl['seqs']) + len(data) * 50 + len(wl['seqs']) * 4000 + (len(data) * len(wl['seqs'])) // 4
    if tier == 'quick' and cost > 3_000_000 and len(spec['faults']) > 8:
        # expensive scenario (long rows or many records under ASan): a seeded sample of the placements instead of all of them
        spec['faults'] = rng.sample(spec['faults'], 2 if cost > 30_000_000 else (8 if len(wl['seqs']) < 500 else 4))
        spec['faults_sampled'] = 1
    return spec


def flist(fault):
    if not fault:
        return []
    return [fault['a'], fault['b']] if fault['k'] == 'pair' else [fault]


def enumerate_faults(spec, rng, pairs=0):
    """every single-fault placement for this scenario (+ `pairs` seeded two-fault combinations)"""
    if spec['mode'] == 'arr':
        return []
    n = len(pieces_of(spec['data'].encode('latin-1'))[0])      # faults are placed in the first source
    F = [{'k': 'stat', 'e': 'ENOENT'}, {'k': 'stat', 'e': 'EACCES'},
         {'k': 'openr', 'e': 'ENOENT'}, {'k': 'openr', 'e': 'EACCES'}, {'k': 'openr', 'e': 'EMFILE'}, {'k': 'input_is_dir'}]
    blocks = list(range(4096, n, 4096))
    if len(blocks) > 10:
        blocks = sorted(rng.sample(blocks, 10))      # every 4096-byte read of inputs up to 40 KB, a sample beyond
    offs = sorted(set([0, 1, n // 4, n // 2, max(0, n - 1)] + blocks + [rng.randrange(n + 1) for _ in range(2)]))
    for o in offs:
        if o <= n:
            F.append({'k': 'read', 'e': 'EIO', 'at': o})
    later = pieces_of(spec['data'].encode('latin-1'))[1:]
    for k, piece in enumerate(later):
        # the same fault kinds on the second and third source: by then an object built from the earlier ones exists
        F += [{'k': 'stat', 'e': 'ENOENT', 'src': k + 1}, {'k': 'openr', 'e': 'EACCES', 'src': k + 1}, {'k': 'input_is_dir', 'src': k + 1},
              {'k': 'read', 'e': 'EIO', 'at': 0, 'src': k + 1}, {'k': 'read', 'e': 'EIO', 'at': len(piece) // 2, 'src': k + 1}]
    if spec['outpath']:
        F += [{'k': 'openw', 'e': 'ENOENT'}, {'k': 'openw', 'e': 'EACCES'}, {'k': 'openw', 'e': 'EISDIR'}, {'k': 'openw', 'e': 'EROFS'}]
    if spec['mode'] == 'cli':
        F += [{'k': 'stdin', 'v': 'closed'}, {'k': 'stdin', 'v': 'empty'}, {'k': 'stdin', 'v': 'data'}, {'k': 'stdin', 'v': 'garbage'}]
    for _ in range(pairs):
        a, b = rng.sample(F, 2)
        if a['k'] != b['k'] and 'pair' not in (a['k'], b['k']):
            F.append({'k': 'pair', 'a': a, 'b': b})
    return F


def build_plan(spec, fault_in, tag, junk=None):
    wl = spec['wl']
    w = dict(spec['world'])
    if junk is not None:
        w['junk_seed'] = junk
    w['stop_on_fail'] = 1
    p = plans.base_plan(tag, w, trace=False)
    data = spec['data'].encode('latin-1')
    infile = 'in.dat'
    p.files.append(('res', 'd', b''))
    kind = 'f'
    stdin = ('tty', b'')
    outpath = spec['outpath']
    dirsrc = set()
    for fault in flist(fault_in):
        k = fault['k']
        if k == 'input_is_dir':
            if fault.get('src'):
                dirsrc.add(fault['src'])
            else:
                kind = 'd'
        elif k == 'stdin':
            v = fault['v']
            if v == 'data':
                stdin = ('pipe', b'>extra1\nACGTTGCA\n>extra2\nACGTTGCAA\n' if wl['kind'] != 'protein' else b'>extra1\nMKVLAAGIVG\n>extra2\nMKVLAAGIVGW\n')
            elif v == 'garbage':
                stdin = ('pipe', bytes(random.Random(len(data)).randrange(256) for _ in range(300)))
            else:
                stdin = (v, b'')
    pieces = pieces_of(data)
    more = ['in%d.dat' % k for k in range(1, len(pieces))]
    if kind == 'f' and spec.get('pipe_in'):
        kind = 'p'                    # the first source is a named pipe / process substitution: stat() reports size 0
    p.files.append((infile, kind, pieces[0] if kind in ('f', 'p') else b''))
    for j, (fn, piece) in enumerate(zip(more, pieces[1:])):
        p.files.append((fn, 'd', b'') if (j + 1) in dirsrc else (fn, 'f', piece))
    for fault in flist(fault_in):
        k = fault['k']
        target = infile if not fault.get('src') or fault['src'] > len(more) else more[fault['src'] - 1]
        if k in ('stat', 'openr'):
            p.faults.append((target, k, fault['e'], 0))
        elif k == 'read':
            p.faults.append((target, 'read', fault['e'], fault['at']))
        elif k == 'openw':
            if fault['e'] == 'ENOENT':
                outpath = 'nodir/' + outpath.split('/')[-1]
            elif fault['e'] == 'EISDIR':
                outpath = 'res'
            elif fault['e'] == 'EACCES':
                p.files.append(('ro', 'D', b'')); outpath = 'ro/' + outpath.split('/')[-1]
            else:
                p.faults.append((outpath, 'openw', fault['e'], 0))
    p.stdin = stdin
    ix = {'outpath': outpath}
    if spec['mode'] == 'cli':
        args = plans.cli_args(wl if spec['cls'] != 'options' else dict(wl, type=5, gpo=-1, gpe=-1, tgpe=-1), spec['nthreads'], spec['fmt_out'], infile, outpath, quiet=bool(spec['quiet']), extra=list(spec['extra_args']) + more)
        ix['CLI'] = p.op_CLI(args)
        ix['args'] = args
    elif spec['mode'] == 'lib':
        ix['R'] = p.op_R(0, infile, spec['quiet'])
        for k, fn in enumerate(more):
            ix['R%d' % (k + 1)] = p.op_R(0, fn, spec['quiet'])
        for k, lo in enumerate(spec.get('libops') or []):
            ix['R9%d' % k] = p.op_simple(*lo[:1] + [0] + lo[1:])
        ix['X'] = p.op_X(0, spec['nthreads'], wl['type'], wl['gpo'], wl['gpe'], wl['tgpe'])
        ix['W'] = p.op_W(0, outpath, spec['fmt_out'])
        ix['F'] = p.op_simple('F', 0)
    else:
        ix['A'] = p.op_A(spec['arr_seqs'], spec['nthreads'], wl['type'], wl['gpo'], wl['gpe'], wl['tgpe'])
    ix['L'] = p.op_simple('L')
    return p, ix


def fault_name(f):
    if not f:
        return 'none'
    if f['k'] == 'pair':
        return fault_name(f['a']) + '+' + fault_name(f['b'])
    if f['k'] == 'stdin':
        return 'stdin:' + f['v']
    if f['k'] == 'input_is_dir':
        return 'input_is_dir' + (('#src%d' % f['src']) if f.get('src') else '')
    return '%s:%s' % (f['k'], f['e']) + (('@%d' % f['at']) if 'at' in f else '') + (('#src%d' % f['src']) if f.get('src') else '')


def plans_of(spec):
    out = []
    if spec.get('huge'):
        p, ix2 = build_plan(spec, None, 'basej', junk=spec['junk2'])
        return [('basej', 'plain', p, ix2, True)]
    p, ix = build_plan(spec, None, 'base')
    out.append(('base', 'asan', p, ix))
    p, ix2 = build_plan(spec, None, 'basej', junk=spec['junk2'])
    out.append(('basej', 'plain', p, ix2))
    for k, f in enumerate(spec['faults']):
        p, ixf = build_plan(spec, f, 'f%d' % k)
        out.append(('f%d' % k, 'asan', p, ixf))
    if spec.get('vg'):
        p, ixv = build_plan(spec, None, 'vg')
        p.world['junk_on'] = 0
        p.world['wall_limit'] = 120
        out.append(('vg', 'valgrind', p, ixv, True))
    return out


# ---------------------------------------------------------------- outcome classification

def subsequence(small, big):
    it = iter(big)
    return all(c in it for c in small)


def loose_valid(rows, data):
    """well-formedness of an alignment of whatever kalign read from arbitrary bytes"""
    if len(rows) < 2:
        return 'fewer than two rows (%d)' % len(rows)
    L = set(len(r) for _, r in rows)
    if len(L) != 1:
        return 'rows of different length %s' % sorted(L)[:4]
    L = L.pop()
    for n, r in rows:
        for c in r:
            if not (65 <= c <= 90 or 97 <= c <= 122 or c == 0x2d):
                return 'row contains byte %r' % bytes([c])
    for c in range(L):
        if all(r[c] == 0x2d for _, r in rows):
            return 'column %d is all gaps' % c
    low = data
    for n, r in rows:
        res = bytes(x for x in r if x != 0x2d)
        if not subsequence(res, low):
            return 'residues of a row do not occur, in order, in the input'
    return None


def outcome(spec, res, ix, fault):
    """-> ('OK'|'FAIL'|'BAD', detail)"""
    data = spec['data'].encode('latin-1')
    multi = CUT in data
    data = data.replace(CUT + b'\n', b'').replace(CUT, b'')
    if res.crashed():
        return ('BAD', 'CRASH', '%s at %s' % (res.crash_class(), res.crash_site()))
    mode = spec['mode']
    msgs = b''.join(o.out.get('stderr', b'') for o in res.ops.values())
    outs = b''.join(o.out.get('stdout', b'') for o in res.ops.values())
    fmt = spec['fmt_out']
    outpath = ix.get('outpath')
    if mode == 'cli':
        o = res.op(ix['CLI'])
        rc = o.rc
        args = ix['args']
        informational = any(a in ('-h', '-v', '--showw', '--help', '--version', '-V') for a in args)
        if rc != 0:
            if not msgs.strip() and not outs.strip():
                return ('BAD', 'SILENT_FAILURE', 'exit status %d without any message' % rc)
            return ('FAIL', '', '')
        if informational:
            return ('OK', 'info', '')
        filedata = o.out.get('file:' + outpath) if outpath else None
        if outpath:
            # options given twice etc. may redirect the output: accept any written file
            if filedata is None:
                files = [v for k, v in o.out.items() if k.startswith('file:')]
                filedata = files[0] if files else None
            if filedata is None:
                return ('BAD', 'SUCCESS_WITHOUT_OUTPUT', 'exit status 0 but no output file was written')
            text = filedata
        else:
            text = outs
    elif mode == 'lib':
        for key in ['R'] + sorted(k for k in ix if k[0] == 'R' and k[1:].isdigit()) + ['X', 'W']:
            o = res.op(ix[key])
            if o is None:
                return ('BAD', 'CRASH', 'no result for %s' % key)
            if o.f.get('skipped'):
                continue
            if o.rc != 0:
                if not msgs.strip() and not outs.strip():
                    return ('BAD', 'SILENT_FAILURE', '%s returned %d without any message' % (key, o.rc))
                return ('FAIL', '', '')
        o = res.op(ix['W'])
        text = o.out.get('file:' + outpath) if outpath else o.out.get('stdout', b'')
        if text is None:
            return ('BAD', 'SUCCESS_WITHOUT_OUTPUT', 'kalign_write_msa returned OK but nothing was written')
    else:
        o = res.op(ix['A'])
        if o.rc != 0:
            return ('FAIL', '', '')      # the array API has no message channel of its own beyond stderr
        rows = [(b'', o.out['row%d' % i]) for i in range(len(spec['arr_seqs'])) if ('row%d' % i) in o.out]
        if spec['cls'] == 'wellformed':
            pr = oracles.integrity(spec['wl']['names'], spec['arr_seqs'], [r for _, r in rows], check_names=False)
            return ('BAD', 'INVALID_ALIGNMENT', pr[0][1]) if pr else ('OK', '', '')
        # arbitrary bytes handed to the array API as "residues" (including '-' itself) make the content
        # oracle ambiguous: only rows of equal length are demanded; memory safety, termination and
        # independence from heap garbage are checked by the other clauses
        if len(set(len(r) for _, r in rows)) > 1:
            return ('BAD', 'INVALID_ALIGNMENT', 'array API returned rows of different length')
        return ('OK', '', '')
    # parse what was written
    if mode == 'cli' and not outpath:
        import props_sched
        text = props_sched._strip_log(text, fmt)
    rows, _, _ = oracles.parse_output(fmt, text)
    fl = flist(fault)
    if any(f['k'] == 'stdin' and f['v'] == 'garbage' for f in fl):
        return ('OK', 'content-not-judged', '')     # names/records from random bytes: only safety clauses apply
    alt_rows = []
    alt_texts = []
    if spec['extra_args']:
        # extra options may have changed the output format or destination: other readings are tried
        # only if the expected one does not give a valid alignment (see below)
        import props_sched
        cands = [text]
        if mode == 'cli':
            o = res.op(ix['CLI'])
            cands += [v for k, v in sorted(o.out.items()) if k.startswith('file:')] + [o.out.get('stdout', b'')]
        alt_texts = [t for t in cands if t]
        for t in cands:
            for f2 in ('fasta', 'msf', 'clu'):
                r2, _, _ = oracles.parse_output(f2, props_sched._strip_log(t, f2))
                if len(r2) >= 2:
                    alt_rows.append(r2)
    stdin_extra = any(f['k'] == 'stdin' and f['v'] in ('data', 'garbage') for f in fl)
    readfault = next((f for f in fl if f['k'] == 'read'), None)
    srcfault = multi and any(f['k'] in ('input_is_dir', 'read', 'stat', 'openr') for f in fl)
    if spec['cls'] == 'wellformed' and spec['fmt_in'] == 'fasta' and not stdin_extra and not readfault and not spec['extra_args'] and not srcfault:
        names = spec['wl']['names']
        if mode == 'lib' and any(lo[0] == 'M' and lo[1] for lo in spec.get('libops') or []):
            names = ['SEQ%d' % (i + 1) for i in range(len(names))]      # reformat_settings_msa(rename=1)
        pr = oracles.integrity(names, spec['wl']['seqs'], rows, check_names=True)
        if pr:
            return ('BAD', 'INVALID_ALIGNMENT', '%s: %s' % pr[0])
        return ('OK', '', '')
    if spec['cls'] == 'wellformed' and spec['fmt_in'] == 'fasta' and readfault and not stdin_extra and not spec['extra_args'] and not multi:
        # alignment of the records delivered before the fault: full rows, the last one possibly a prefix
        names, seqs = spec['wl']['names'], spec['wl']['seqs']
        if mode == 'lib' and any(lo[0] == 'M' and lo[1] for lo in spec.get('libops') or []):
            names = ['SEQ%d' % (i + 1) for i in range(len(names))]      # reformat_settings_msa(rename=1)
        checked_names = mode == 'lib' and any(lo[0] == 'V' for lo in spec.get('libops') or [])
        if len(rows) > len(names):
            return ('BAD', 'INVALID_ALIGNMENT', 'more rows than records')
        for k, (n, r) in enumerate(rows):
            res_ = bytes(c for c in r if c != 0x2d).decode('latin-1')
            # (kalign_check_msa renames records that share a name: a name cut short by the fault - 's4' from 's41' - can
            #  collide with an earlier one, so names are not judged here when that call is part of the scenario)
            if n.decode('latin-1') != names[k] and k < len(rows) - 1 and not checked_names:
                return ('BAD', 'INVALID_ALIGNMENT', 'row %d has the wrong name after a read fault' % k)
            if k < len(rows) - 1 and res_ != seqs[k]:
                return ('BAD', 'INVALID_ALIGNMENT', 'row %d does not reproduce record %d delivered before the read fault' % (k, k))
            if k == len(rows) - 1 and not seqs[k].startswith(res_):
                return ('BAD', 'INVALID_ALIGNMENT', 'last row is not a prefix of the record being delivered when the read failed')
    extra = b''
    if stdin_extra:
        extra = b'\n>extra1\nACGTTGCA\n>extra2\nACGTTGCAA\n>extra1\nMKVLAAGIVG\n>extra2\nMKVLAAGIVGW\n' + bytes(random.Random(len(data)).randrange(256) for _ in range(300))
    why = loose_valid(rows, extra + data + data)
    if why:
        for r2 in alt_rows:
            if loose_valid(r2, extra + data + data) is None:
                why = None
                break
    garbage_in = spec['cls'] != 'wellformed' or bool(readfault)     # a read fault truncates mid-line
    texts = [text] + alt_texts        # with extra options the alignment may have gone to another file or to stdout
    if why and garbage_in and (fmt != 'fasta' or spec['extra_args']):
        # names read from garbage may contain blanks ('>x!!NA_MULTIPLE_ALIGNMENT 1.0'): the blank-separated reading of a
        # Clustal/MSF row then takes part of the name for residues; read the rows by position and last token instead
        import parsers, props_sched
        for t in texts:
            for f2 in ([fmt] if not spec['extra_args'] else ['clu', 'msf']):
                if why and f2 != 'fasta':
                    r3 = parsers.parse_blocks_loose(props_sched._strip_log(t, f2), f2)
                    if len(r3) >= 2 and loose_valid(r3, extra + data + data) is None:
                        why = None
    if why and (any(n == b'' for rr in [rows] + alt_rows for n, _ in rr) or ((fmt != 'fasta' or spec['extra_args']) and garbage_in and any(b'\n ' in t for t in texts))):
        # garbage input made kalign read a sequence without a name; a nameless row cannot be told from
        # padding in msf/clu, so the content oracle is not applied (memory safety etc. still are)
        why = None
    if why:
        return ('BAD', 'INVALID_ALIGNMENT', why)
    return ('OK', '', '')


def judge(spec, results):
    V = []
    pl = spec['_plans']
    bytag = {t[0]: t for t in pl}

    def add(cls, detail, tag, site=''):
        V.append({'prop': 'C05', 'cls': cls, 'detail': detail, 'sig': 'C05:%s%s' % (cls, (':' + site) if site else ''), 'tag': tag})

    ocs = {}
    for tag, r in results.items():
        if tag not in bytag:
            continue
        ix = bytag[tag][3]
        fault = None
        if tag.startswith('f') and tag[1:].isdigit():
            fault = spec['faults'][int(tag[1:])]
        for cls, detail in r.viol:
            pr = cls.split('_', 1)[0]
            V.append({'prop': pr, 'cls': cls, 'detail': detail, 'sig': '%s:%s' % (pr, cls), 'tag': tag})
        oc = outcome(spec, r, ix, fault)
        ocs[tag] = oc
        nsrc = spec['data'].count(CUT.decode('latin-1')) + 1
        desc = '[%s %s input=%s%s%s fault=%s%s]' % (spec['mode'], spec['cls'], spec['fmt_in'] + ('(pipe)' if spec.get('pipe_in') else ''), ('+' + '+'.join(spec['muts'])) if spec['muts'] else '', (' in %d sources' % nsrc) if nsrc > 1 else '', fault_name(fault),
                                                (' args=' + ' '.join(spec['extra_args'])) if spec['extra_args'] else '')
        if oc[0] == 'BAD':
            if oc[1] == 'CRASH':
                cc = r.crash_class() or 'NO_RESULT'
                site = r.crash_site()
                if cc == 'SLOW':
                    pass
                elif cc in ('TIMEOUT', 'DEADLOCK', 'BUDGET'):
                    add('HANG', '%s %s' % (oc[2], desc), tag, site)
                elif cc in ('UNSUPPORTED', 'HARNESS'):
                    V.append({'prop': 'H', 'cls': 'H_' + cc, 'detail': str(r.fatal), 'sig': 'H:' + cc, 'tag': tag})
                elif cc.startswith('VALGRIND'):
                    add('UNINITIALISED_USE' if 'uninit' in cc else 'MEMORY_ERROR', 'memcheck: %s %s' % (oc[2], desc), tag, site)
                else:
                    add('MEMORY_ERROR' if cc.startswith(('ASAN', 'SIGNAL', 'DIED')) else cc, '%s %s' % (oc[2], desc), tag, site)
            else:
                sub = ''
                if oc[1] == 'INVALID_ALIGNMENT':
                    import re
                    sub = re.sub(r'[^A-Za-z]+', '_', re.sub(r"b?'[^']*'|\(.*?\)|\[.*?\]|\d+", '', oc[2])).strip('_')[:40]
                add(oc[1], '%s %s' % (oc[2], desc), tag, sub)
        elif oc[0] == 'OK':
            lo = r.op(ix['L'])
            if lo is not None and int(lo.f.get('live', 0)) > 0:
                add('LEAK_ON_SUCCESS', '%s allocation(s), %s bytes still allocated after a successful run, blocks (size@allocation#):%s %s' % (lo.f.get('live'), lo.f.get('bytes'), lo.f.get('blocks', ''), desc), tag)
            if lo is not None and int(lo.f.get('streams', 0)) > 0:
                add('STREAM_LEFT_OPEN', '%s stream(s) still open after a successful run %s' % (lo.f.get('streams'), desc), tag)
    # same scenario, other heap garbage, other build: the outcome must be the same
    if 'base' in results and 'basej' in results and not results['base'].crashed() and not results['basej'].crashed():
        fa, fb = plans.fingerprint(results['base']), plans.fingerprint(results['basej'])
        d = plans.first_difference(fa, fb)
        if d:
            add('UNINIT_DEPENDENCE', 'same scenario, different heap garbage, different outcome: %s [%s %s input=%s%s]' % (d, spec['mode'], spec['cls'], spec['fmt_in'], ('+' + '+'.join(spec['muts'])) if spec['muts'] else ''), 'basej')
    return V


def job_stats(spec, results):
    st = {'sources': {str(spec['data'].count(CUT.decode('latin-1')) + 1): 1}, 'scenarios_with_all_placements': 0 if spec.get('faults_sampled') else 1, 'scenarios_with_sampled_placements': 1 if spec.get('faults_sampled') else 0, 'outcomes': {}, 'faults_injected': {}, 'classes': {spec['cls']: 1}, 'modes': {spec['mode']: 1}, 'mutations': {}, 'memcheck_runs': 1 if 'vg' in results else 0}
    for m in spec['muts']:
        st['mutations'][m] = 1
    for f in spec['faults']:
        k = __import__('re').sub(r'@\d+', '', fault_name(f))
        st['faults_injected'][k] = st['faults_injected'].get(k, 0) + 1
    return st


def nontrivial_keys(spec, results):
    import hashlib
    h = hashlib.sha256((spec['data'] + repr(spec['extra_args'])).encode('latin-1')).hexdigest()[:12]
    keys = []
    for tag, r in results.items():
        if r.probes.get('allocs', 0) > 5:
            keys.append('%s:%s' % (h, tag))
    return keys


def summary(spec, results=None):
    return {'mode': spec['mode'], 'class': spec['cls'], 'fmt_in': spec['fmt_in'], 'mutations': spec['muts'], 'input_bytes': len(spec['data']), 'sources': spec['data'].count(CUT.decode('latin-1')) + 1,
            'input_head': spec['data'][:120], 'extra_args': spec['extra_args'], 'outpath': spec['outpath'],
            'faults': [fault_name(f) for f in spec['faults']]}


def shrinks(spec, viol):
    tag = viol.get('tag', '')
    # keep only the failing placement
    if tag.startswith('f') and tag[1:].isdigit() and len(spec['faults']) > 1:
        s = copy.deepcopy(spec); s['faults'] = [spec['faults'][int(tag[1:])]]
        yield s
    elif tag in ('base', 'basej') and spec['faults']:
        s = copy.deepcopy(spec); s['faults'] = []
        yield s
    data = spec['data']
    lines = data.split('\n')
    n = len(lines)
    chunk = n // 2
    while chunk >= 1:
        for st in range(0, n, chunk):
            s = copy.deepcopy(spec); s['data'] = '\n'.join(lines[:st] + lines[st + chunk:])
            s['cls'] = 'mutated' if spec['cls'] == 'wellformed' else spec['cls']     # no longer the generated file
            if s['data'] != data:
                yield s
        chunk //= 2
    for i, l in enumerate(lines):
        if len(l) > 8:
            for cut in (l[:len(l) // 2], l[len(l) // 2:]):
                s = copy.deepcopy(spec); s['data'] = '\n'.join(lines[:i] + [cut] + lines[i + 1:])
                s['cls'] = 'mutated' if spec['cls'] == 'wellformed' else spec['cls']
                yield s
    if spec.get('arr_seqs'):
        a = spec['arr_seqs']
        for i in range(len(a)):
            if len(a) > 2:
                s = copy.deepcopy(spec); s['arr_seqs'] = a[:i] + a[i + 1:]
                s['wl']['seqs'] = s['wl']['seqs'][:i] + s['wl']['seqs'][i + 1:]; s['wl']['names'] = s['wl']['names'][:i] + s['wl']['names'][i + 1:]
                yield s
            if len(a[i]) > 1:
                s = copy.deepcopy(spec); s['arr_seqs'][i] = a[i][:len(a[i]) // 2]
                yield s
    if spec['extra_args'] and len(spec['extra_args']) > 1:
        for i in range(len(spec['extra_args'])):
            s = copy.deepcopy(spec); s['extra_args'] = spec['extra_args'][:i] + spec['extra_args'][i + 1:]
            yield s
    if not spec['quiet']:
        s = copy.deepcopy(spec); s['quiet'] = 1
        yield s
    if spec['nthreads'] > 1:
        s = copy.deepcopy(spec); s['nthreads'] = 1
        yield s
    w = spec['world']
    for key in ('p_defer', 'p_switch', 'p_hook_yield', 'p_stall', 'p_shortfall', 'chunk_mode'):
        if w.get(key):
            s = copy.deepcopy(spec); s['world'][key] = 0
            yield s
    if spec['wl']['gpo'] >= 0:
        s = copy.deepcopy(spec); s['wl']['gpo'] = s['wl']['gpe'] = s['wl']['tgpe'] = -1.0
        yield s
    if spec['wl']['type'] != 5:
        s = copy.deepcopy(spec); s['wl']['type'] = 5
        yield s
