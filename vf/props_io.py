"""Job kinds for the writer/reader pair, observed at the simulated file layer.

C15: every file kalign writes is well-formed and correctly labelled (strict independent parsers; the
     simulated clock varies the MSF date; long output names take the header-reallocation path).
C06: write -> read -> (finalise) -> write -> read round trips through the simulated file layer under
     seeded read chunking; the re-read object is compared with the alignment that was written."""
import copy
import gen, plans, oracles
from sim import Plan

RULE = {
    'C15': 'each job = one generated alignment request run through the library (or CLI) inside the simulator, then written in fasta, msf and clu to files with varied names/directories and to stdout under a per-job simulated clock epoch; every written file is parsed by strict independent parsers. distinct_nontrivial = distinct (alignment hash, format, output name class, clock epoch month) combinations whose file parsed to >= 2 rows',
    'C06': 'each job = one alignment produced by a simulated run, written in a format, re-read by kalign under a seeded chunking mode, dumped, finalised, written in a second format and re-read, for a seeded ordered pair of formats (all 9 pairs covered across jobs); distinct_nontrivial = distinct (alignment hash, format pair, chunk mode) with at least one gap column or width within 1 of a multiple of 60',
}
ASSUMPTIONS = ['the alignment dimension is sampled by generation; the simulator contributes the file layer, read chunking and the clock',
               'C06 conversion uses the library\'s own finalise step between read and write (the only route kalign offers to write a re-read alignment)']

FMTS = ['fasta', 'msf', 'clu']


def variants(prop, tier):
    return ['plain'] + (['asan'] if tier == 'thorough' else [])


def checksum_workload(rng):
    """a gap-free family (equal lengths, substitutions only) whose GCG checksums sit on the edges of the modulus: the sum
    of the row checksums is an exact multiple of 10000 (global Check: 0), or one row's checksum is 0 or 9999"""
    import parsers
    kind = rng.choice(['dna', 'protein'])
    alpha = gen.DNA if kind == 'dna' else gen.PROT
    L = rng.randint(30, 90)
    base = gen.rand_seq(rng, alpha, L)
    n = rng.randint(2, 5)
    seqs = [base] + [''.join(rng.choice(alpha) if rng.random() < 0.06 else c for c in base) for _ in range(n - 1)]
    target = rng.choice(['global0', 'global0', 'row0', 'row9999'])
    last = list(seqs[-1])
    others = sum(parsers.gcg_checksum(x.encode()) for x in seqs[:-1])
    for _ in range(60000):
        c = parsers.gcg_checksum(''.join(last).encode())
        if (target == 'global0' and (others + c) % 10000 == 0) or (target == 'row0' and c == 0) or (target == 'row9999' and c == 9999):
            break
        last[rng.randrange(L)] = rng.choice(alpha)
    seqs[-1] = ''.join(last)
    wl = {'kind': kind, 'profile': 'checksum', 'shape': 'star', 'seqs': seqs, 'type': gen.T_UNDEF, 'gpo': -1.0, 'gpe': -1.0, 'tgpe': -1.0}
    wl['names'] = gen.gen_names(rng, n)
    return wl


def io_workload(rng, prop):
    """alignments with widths around multiples of 60, long names, mixed case"""
    if prop == 'C15' and rng.random() < 0.04:
        return checksum_workload(rng)
    mode = rng.randrange(5)
    if mode == 0:
        # substitutions and deletions only from a base whose length is 60k-1..60k+1: width tends to be the base length
        kind = rng.choice(['dna', 'protein'])
        alpha = gen.DNA if kind == 'dna' else gen.PROT
        L = 60 * rng.randint(1, 5) + rng.choice([-1, 0, 0, 0, 1])
        base = gen.rand_seq(rng, alpha, L)
        n = rng.randint(2, 12)
        seqs = [base]
        for _ in range(n - 1):
            s = list(base)
            for i in range(len(s)):
                if rng.random() < 0.05:
                    s[i] = rng.choice(alpha)
            if rng.random() < 0.7:
                for _ in range(rng.randint(1, 3)):
                    if len(s) > 10:
                        st = rng.randrange(len(s) - 5)
                        del s[st:st + rng.randint(1, 4)]
            seqs.append(''.join(s))
        rng.shuffle(seqs)
        wl = {'kind': kind, 'profile': 'w60', 'shape': 'star', 'seqs': seqs, 'type': gen.T_UNDEF, 'gpo': -1.0, 'gpe': -1.0, 'tgpe': -1.0}
        wl['names'] = gen.gen_names(rng, n)
    elif mode == 1 and rng.random() < 0.25:
        wl = gen.gen_workload(rng, profile=rng.choice(['manylines', 'many', 'boundary', 'seqcap']))
        if wl['profile'] == 'seqcap':
            # 1023-1025 rows AND more than one 60-column block: every member repeated to 60-130 residues
            k = rng.randint(8, 14)
            wl['seqs'] = [x * k for x in wl['seqs']]
    else:
        wl = gen.gen_workload(rng, weights=[15, 45, 25, 5, 2, 4, 4])
    n = len(wl['seqs'])
    if rng.random() < 0.3:
        maxlen = rng.choice([1, 2, 30, 100, 200]) if prop == 'C06' else rng.choice([1, 2, 30, 100, 200, 255, 256, 257, 262, 300, 340, 1000])
        if maxlen < 3:
            # very short names must still be distinct
            pool = list(gen.NAME_SAFE[:62])
            rng.shuffle(pool)
            wl['names'] = [pool[i] if i < len(pool) else 'n%d' % i for i in range(n)] if maxlen == 1 else ['%s%s' % (pool[i % 62], pool[(i // 62) % 62]) for i in range(n)]
        else:
            wl['names'] = gen.gen_names(rng, n, maxlen=maxlen)
            if rng.random() < 0.5:
                k = rng.randrange(n)
                wl['names'][k] = (wl['names'][k] + gen.rand_seq(rng, gen.NAME_SAFE, maxlen))[:maxlen - len(str(k)) - 1] + '.' + str(k)
    if rng.random() < 0.15:
        # the property's name alphabet is letters, digits and _ . | - in ANY position, the first included
        for k in rng.sample(range(n), rng.randint(1, n)):
            wl['names'][k] = rng.choice('_.|-') + wl['names'][k]
    if rng.random() < 0.1:
        # names that are words of the file formats themselves (all from the property's name alphabet)
        words = ['CLUSTAL', 'CLUSTAL_ref', 'sp|CLUSTAL|1', 'MSF', 'Name', 'Len', 'Check', 'Weight', 'Type', 'PileUp', 'multiple', 'Kalign', 'MUSCLE', 'alignment', 'NA_MULTIPLE_ALIGNMENT']
        for k in rng.sample(range(n), min(n, rng.randint(1, 3))):
            wl['names'][k] = rng.choice(words) + rng.choice(['', '.%d' % k, '_%d' % k])
        if len(set(wl['names'])) < n:
            wl['names'] = [nm if wl['names'].index(nm) == i else '%s.%d' % (nm, i) for i, nm in enumerate(wl['names'])]
    case_mode = rng.choice([0, 0, 1, 2])
    wl['seqs'] = [gen.recase(rng, s, case_mode) for s in wl['seqs']]
    return wl


def gen_spec(prop, rng, tier):
    wl = io_workload(rng, prop)
    w = gen.gen_world(rng)
    # epochs: 1970, month/year roll-overs, every month (name lengths 3..9 letters), 2038 boundary, a pre-1970
    # clock, and the first five-digit year
    w['clock_epoch'] = rng.choice([0, 86400 * 31 - 1, 951782400, 1700000000, 4102444799, 2 ** 31 - 1, 2 ** 31, -1, -86400 * 365 * 30,
                                   253402300800 + rng.randrange(0, 86400 * 400), 1693526400 + rng.randrange(0, 86400 * 30),
                                   rng.randrange(0, 4102444800), rng.randrange(0, 4102444800)])
    w['clock_step'] = rng.choice([0, 0, 1, 61, 3600])
    w['chunk_mode'] = rng.randrange(4)
    spec = {'kind': prop, 'prop': prop, 'wl': wl, 'nthreads': rng.choice([1, 2, 4, 8]), 'world': w}
    if prop == 'C15':
        outs = []
        for f in FMTS:
            style = rng.randrange(7)
            ext = plans.EXT[f]
            if style == 0:
                path = None
            elif style == 1:
                path = 'out.' + ext
            elif style == 2:
                path = 'results/run.1/' + gen.rand_seq(rng, gen.NAME_SAFE[:62], rng.randint(1, 12)) + '.' + ext
            elif style == 3:
                path = 'results/' + gen.rand_seq(rng, gen.NAME_SAFE[:62] + '._-', rng.randint(180, 240)) + '.' + ext
            elif style == 4:
                path = 'aln'           # no extension
            elif style == 6:
                # characters that are ordinary in file names and special elsewhere (printf, shells, getopt)
                path = rng.choice(['50%similar', 'top10%identity', 'cov%c', '100%', 'a b', "it's", 'x;y', '-dash', 'q?*', 'a=b', '#1', '~tmp', '{x}', '%n%n%s%s']) + rng.choice(['.' + ext, '', '.' + ext])
            else:
                path = './' + gen.rand_seq(rng, gen.NAME_SAFE[:62], 3) + '.' + rng.choice(['txt', 'out', ext])
            outs.append([f, path])
        rng.shuffle(outs)
        spec['outs'] = outs
        spec['fmtword'] = {f: rng.choice({'fasta': ['fasta', 'fa', 'afa.fasta'], 'msf': ['msf'], 'clu': ['clu', 'clustal']}[f]) for f in FMTS}
        spec['cli'] = 1 if rng.random() < 0.25 else 0
    else:
        spec['pair'] = [rng.choice(FMTS), rng.choice(FMTS)]
    return spec


def plans_of(spec):
    wl = spec['wl']
    p = plans.base_plan('io', spec['world'])
    p.files.append(('in.fa', 'f', gen.fasta_bytes(wl['names'], wl['seqs'])))
    p.files.append(('results', 'd', b''))
    p.files.append(('results/run.1', 'd', b''))
    p.files.append(('.', 'd', b''))
    ix = {}
    if spec['kind'] == 'C15':
        if spec.get('cli'):
            ix['cli'] = []
            p.stdin = ('tty', b'')
            for f, path in spec['outs']:
                ix['cli'].append(p.op_CLI(plans.cli_args(wl, spec['nthreads'], spec['fmtword'][f], 'in.fa', path, quiet=True)))
            # classification as kalign sees it
            ix['R'] = p.op_R(0, 'in.fa', 1)
            ix['D0'] = p.op_simple('D', 0)
            ix['F'] = p.op_simple('F', 0)
        else:
            ix['R'] = p.op_R(0, 'in.fa', 1)
            ix['X'] = p.op_X(0, spec['nthreads'], wl['type'], wl['gpo'], wl['gpe'], wl['tgpe'])
            ix['D'] = p.op_simple('D', 0)
            ix['W'] = []
            for f, path in spec['outs']:
                ix['W'].append(p.op_W(0, path, spec['fmtword'][f]))
            ix['F'] = p.op_simple('F', 0)
    else:
        f1, f2 = spec['pair']
        ix['R'] = p.op_R(0, 'in.fa', 1)
        ix['X'] = p.op_X(0, spec['nthreads'], wl['type'], wl['gpo'], wl['gpe'], wl['tgpe'])
        ix['D'] = p.op_simple('D', 0)
        ix['W1'] = p.op_W(0, 'a.' + plans.EXT[f1], f1)
        ix['R1'] = p.op_R(1, 'a.' + plans.EXT[f1], 1)
        ix['D1'] = p.op_simple('D', 1)
        # conversion through the public API alone: read, then write.  kalign may refuse (no data is
        # lost then); if it reports success the file must hold the alignment.
        ix['Wd'] = p.op_W(1, 'c.' + plans.EXT[f2], f2)
        ix['Rd'] = p.op_R(3, 'c.' + plans.EXT[f2], 1)
        ix['Dd'] = p.op_simple('D', 3)
        ix['Fd'] = p.op_simple('F', 3)
        ix['Z1'] = p.op_simple('Z', 1)
        ix['W2'] = p.op_W(1, 'b.' + plans.EXT[f2], f2)
        ix['R2'] = p.op_R(2, 'b.' + plans.EXT[f2], 1)
        ix['D2'] = p.op_simple('D', 2)
        ix['F0'] = p.op_simple('F', 0); ix['F1'] = p.op_simple('F', 1); ix['F2'] = p.op_simple('F', 2)
    ix['L'] = p.op_simple('L')
    return [('io', spec.get('_variant', 'plain'), p, ix)]


def _dump_rows(o):
    """rows of a dumped msa: list of (name, gapped row) reconstructed from seq + gaps, or the linear rows when final"""
    n = int(o.f.get('numseq', 0))
    final = o.f.get('final') == '1'
    rows = []
    for i in range(n):
        t = o.out.get('seq%d' % i)
        if t is None:
            return None
        name, ln, seq, gaps = t
        if final:
            rows.append((name, seq))
        else:
            g = [int(x) for x in gaps.split(',')] if gaps != '-' else []
            row = bytearray()
            for k in range(ln):
                row += b'-' * (g[k] if k < len(g) else 0)
                row.append(seq[k])
            row += b'-' * (g[ln] if ln < len(g) else 0)
            rows.append((name, bytes(row)))
    return rows


def _kind_of(o):
    return 'protein' if o.f.get('biotype') == '0' else 'dna'


def judge(spec, results):
    V = []
    r = results['io']
    ix = spec['_ix']
    prop = spec['kind']

    def add(cls, detail):
        V.append({'prop': prop, 'cls': cls, 'detail': detail, 'sig': '%s:%s' % (prop, cls), 'tag': 'io'})

    for cls, detail in r.viol:
        V.append({'prop': cls.split('_', 1)[0], 'cls': cls, 'detail': detail, 'sig': '%s:%s' % (cls.split('_', 1)[0], cls), 'tag': 'io'})
    if r.crashed():
        V.append({'prop': 'X', 'cls': 'X_CRASH:%s' % r.crash_class(), 'detail': 'run ended with %s at %s' % (r.crash_class(), r.crash_site()), 'sig': 'X:CRASH:%s:%s' % (r.crash_class(), r.crash_site()), 'tag': 'io'})
        return V
    if prop == 'C15':
        if spec.get('cli'):
            d = r.op(ix['D0'])
            kind = _kind_of(d) if d is not None else spec['wl']['kind']
            written = []
            for (f, path), i in zip(spec['outs'], ix['cli']):
                o = r.op(i)
                if o is None:
                    continue
                data = o.out.get('file:' + path) if path else o.out.get('stdout', b'')
                if not path and data is not None:
                    # without -o the alignment shares stdout with kalign's log (warnings are not silenced by -q):
                    # the property speaks about the files kalign writes, so only the alignment part is judged
                    import props_sched
                    data = props_sched._strip_log(data, f)
                if o.rc != 0:
                    if path and data is not None:
                        add('C15_FAILED_WRITE_LEFT_FILE', 'the CLI failed and left a %d-byte %s file behind (%s)' % (len(data), f, o.out.get('stderr', b'')[:160].decode('latin-1').replace('\n', ' / ')))
                    continue
                written.append((f, path, data, None))
        else:
            d = r.op(ix['D'])
            if d is None or r.op(ix['X']) is None or r.op(ix['X']).rc != 0:
                return V
            kind = _kind_of(d)
            truth = _dump_rows(d)
            r.stats['alnlen'] = int(d.f.get('alnlen', 0))
            written = []
            for (f, path), i in zip(spec['outs'], ix['W']):
                o = r.op(i)
                if o is None:
                    continue
                data = o.out.get('file:' + path) if path else o.out.get('stdout', b'')
                if o.rc != 0:
                    # a failed write is a failure, not a malformed file - unless it left a file behind
                    if path and data is not None:
                        add('C15_FAILED_WRITE_LEFT_FILE', 'kalign_write_msa failed for a finished alignment and left a %d-byte %s file behind (%s)' % (len(data), f, (o.out.get('stderr', b'') or r.op(i).out.get('stdout', b''))[:160].decode('latin-1').replace('\n', ' / ')))
                    continue
                written.append((f, path, data, truth))
        for f, path, data, truth in written:
            if data is None:
                add('C15_NO_FILE', 'write of %s to %r returned success but no file appeared' % (f, path))
                continue
            for cls, detail in oracles.wellformed(f, data, kind, path)[:3]:
                add('C15_' + cls, '%s (format %s, %s)' % (detail, f, 'stdout' if not path else 'name of %d chars' % len(path)))
            if truth is not None:
                rows, _, _ = oracles.parse_output(f, data)
                if [x[1] for x in rows] != [x[1] for x in truth]:
                    add('C15_ROWS', 'rows in the %s file differ from the alignment held in memory' % f)
                elif [x[0] for x in rows] != [(x[0] if f == 'fasta' else x[0][:256]) for x in truth]:
                    # msf/clu labels are limited to the 256-character name buffer by design
                    add('C15_NAMES', 'names in the %s file differ from the names held in memory' % f)
        return V
    # ---- C06
    d0 = r.op(ix['D'])
    if d0 is None or r.op(ix['X']).rc != 0:
        return V
    truth = _dump_rows(d0)
    r.stats['alnlen'] = int(d0.f.get('alnlen', 0))
    r.stats['has_gaps'] = 1 if any(b'-' in row for _, row in truth) else 0
    f1, f2 = spec['pair']

    def cmp(step, fmt, dump):
        if dump is None or dump.f.get('null') == '1':
            add('C06_UNREADABLE', 'kalign could not read back the %s file it wrote (%s)' % (fmt, step)); return False
        rows = _dump_rows(dump)
        if rows is None or len(rows) != len(truth):
            add('C06_ROWCOUNT', '%s: %d rows read back from %s, %d written' % (step, len(rows or []), fmt, len(truth))); return False
        for k, ((n0, r0), (n1, r1)) in enumerate(zip(truth, rows)):
            if n0 != n1:
                add('C06_NAME', '%s: row %d read back from %s is named %r, written as %r' % (step, k, fmt, n1[:40], n0[:40])); return False
            if oracles_degap(r0) != oracles_degap(r1):
                add('C06_RESIDUES', '%s: residues of row %d changed through %s' % (step, k, fmt)); return False
            if r0 != r1:
                add('C06_GAPS', '%s: gaps of row %d moved through %s: %r vs %r' % (step, k, fmt, r0[:50], r1[:50])); return False
        return True

    w1 = r.op(ix['W1'])
    if w1 is None or w1.rc != 0:
        add('C06_WRITE_FAILED', 'writing a finished alignment as %s failed' % f1)
        return V
    if r.op(ix['R1']).rc != 0:
        add('C06_UNREADABLE', 'kalign_read_input failed on the %s file kalign wrote' % f1)
        return V
    ok = cmp('write(%s)->read' % f1, f1, r.op(ix['D1']))
    wd = r.op(ix['Wd'])
    if ok and wd is not None and wd.rc == 0:
        if r.op(ix['Rd']).rc != 0:
            add('C06_DIRECT_CONVERSION_LOST', 'kalign_write_msa reported success converting the re-read %s alignment to %s, but the written file cannot be read back' % (f1, f2))
        else:
            n0 = len(V)
            cmp('read(%s) then write(%s) through the public API' % (f1, f2), f2, r.op(ix['Dd']))
            for v in V[n0:]:
                v['cls'] = 'C06_DIRECT_CONVERSION_LOST'; v['sig'] = 'C06:C06_DIRECT_CONVERSION_LOST'
    z = r.op(ix['Z1'])
    if ok and z is not None and z.rc == 0:
        w2 = r.op(ix['W2'])
        if w2 is None or w2.rc != 0:
            add('C06_WRITE_FAILED', 'writing the re-read alignment as %s failed' % f2)
        elif r.op(ix['R2']).rc != 0:
            add('C06_UNREADABLE', 'kalign_read_input failed on the %s file written after conversion from %s' % (f2, f1))
        else:
            cmp('%s->%s conversion' % (f1, f2), f2, r.op(ix['D2']))
    return V


def oracles_degap(row):
    return bytes(c for c in row if c != 0x2d)


def job_stats(spec, results):
    r = results['io']
    ix_list = None
    out = {'pairs': {}, 'formats': {}, 'width_mod60': {}, 'name_len_max': {}}
    w = r.stats.get('alnlen')
    if w:
        out['width_mod60']['0 (exact multiple)' if w % 60 == 0 else ('1' if w % 60 == 1 else ('59' if w % 60 == 59 else 'other'))] = 1
    if 'has_gaps' in r.stats:
        out['alignments_with_gaps' if r.stats['has_gaps'] else 'gap_free_alignments'] = 1
    nm = max(len(x) for x in spec['wl']['names'])
    out['name_len_max']['<=30' if nm <= 30 else ('<=200' if nm <= 200 else ('<=256' if nm <= 256 else '>256'))] = 1
    if spec['kind'] == 'C06':
        out['pairs']['%s->%s' % tuple(spec['pair'])] = 1
        if not r.crashed():
            z = r.op(spec.get('_ix', {}).get('Z1', -1)) if spec.get('_ix') else None
    else:
        out['evaluations'] = len(spec['outs'])       # one evaluation per written file
        for f, path in spec['outs']:
            out['formats'][f] = out['formats'].get(f, 0) + 1
    return out


def nontrivial_keys(spec, results):
    r = results['io']
    keys = []
    h = plans.wl_hash(spec['wl'])
    if r.crashed():
        return keys
    if spec['kind'] == 'C15':
        import time as _t
        try:
            month = _t.gmtime(spec['world']['clock_epoch']).tm_mon
        except (OverflowError, OSError, ValueError):
            month = 0
        for f, path in spec['outs']:
            cls = 'stdout' if not path else ('long' if len(path) > 150 else ('dir' if '/' in path else 'plain'))
            keys.append('%s:%s:%s:%d' % (h, f, cls, month))
    else:
        w = r.stats.get('alnlen', 0)
        if r.stats.get('has_gaps') or (w and (w % 60 in (0, 1, 59))):
            keys.append('%s:%s:%s:%d' % (h, spec['pair'][0], spec['pair'][1], spec['world'].get('chunk_mode', 0)))
    return keys


def summary(spec, results=None):
    wl = spec['wl']
    s = {'kind': wl['kind'], 'numseq': len(wl['seqs']), 'len_max': max(len(x) for x in wl['seqs']), 'name_len_max': max(len(x) for x in wl['names']),
         'nthreads': spec['nthreads'], 'clock_epoch': spec['world'].get('clock_epoch'), 'chunk_mode': spec['world'].get('chunk_mode')}
    if spec['kind'] == 'C15':
        s['outs'] = [[f, (p if p is None or len(p) < 40 else p[:20] + '...(%d chars)' % len(p))] for f, p in spec['outs']]
        s['cli'] = spec.get('cli')
    else:
        s['pair'] = spec['pair']
    if results and not results['io'].crashed():
        d = results['io'].op(spec.get('_ix', {}).get('D', -1)) if spec.get('_ix') else None
    return s


def shrinks(spec, viol):
    wl = spec['wl']
    n = len(wl['seqs'])
    chunk = n // 2
    while chunk >= 1:
        for st in range(0, n, chunk):
            keep = [i for i in range(n) if not (st <= i < st + chunk)]
            if len(keep) >= 2:
                s = copy.deepcopy(spec)
                s['wl']['seqs'] = [wl['seqs'][i] for i in keep]; s['wl']['names'] = [wl['names'][i] for i in keep]
                yield s
        chunk //= 2
    for frac in (2, 4):
        s = copy.deepcopy(spec)
        s['wl']['seqs'] = [x[:max(1, len(x) - len(x) // frac)] for x in wl['seqs']]
        if s['wl']['seqs'] != wl['seqs']:
            yield s
    if any(len(x) > 4 for x in wl['names']):
        s = copy.deepcopy(spec); s['wl']['names'] = ['s%d' % i for i in range(n)]
        yield s
    if spec['kind'] == 'C15' and len(spec['outs']) > 1:
        for k in range(len(spec['outs'])):
            s = copy.deepcopy(spec); s['outs'] = [spec['outs'][k]]
            yield s
    if spec['kind'] == 'C15':
        for k, (f, path) in enumerate(spec['outs']):
            if path and len(path) > 10:
                s = copy.deepcopy(spec); s['outs'][k][1] = 'out.' + plans.EXT[f]
                yield s
    w = spec['world']
    for key in ('p_defer', 'p_switch', 'p_hook_yield', 'p_stall', 'p_shortfall', 'chunk_mode', 'clock_step'):
        if w.get(key):
            s = copy.deepcopy(spec); s['world'][key] = 0
            yield s
    if spec['nthreads'] > 1:
        s = copy.deepcopy(spec); s['nthreads'] = 1
        yield s


def harden(spec):
    """the same job on the ASan+UBSan build (used by the gate for erratic candidates)"""
    s = copy.deepcopy(spec)
    s['_variant'] = 'asan'
    return s
