"""Turning workloads into simrun plans (shared by the property modules)."""
import hashlib, json
from sim import Plan
from gen import fasta_bytes

EXT = {'fasta': 'fa', 'msf': 'msf', 'clu': 'clu'}
TYPE_WORD = {0: 'dna', 1: 'internal', 2: 'rna', 3: 'protein', 4: 'divergent'}


def wl_hash(wl):
    h = hashlib.sha256(json.dumps([wl['names'], wl['seqs'], wl['type'], wl['gpo'], wl['gpe'], wl['tgpe']]).encode()).hexdigest()
    return h[:16]


def cli_args(wl, nthreads, fmt, infile='in.fa', outfile=None, quiet=True, extra=()):
    a = []
    if infile is not None:
        a += ['-i', infile]
    if outfile is not None:
        a += ['-o', outfile]
    if fmt is not None:
        a += ['--format', fmt]
    if nthreads is not None:
        a += ['-n', str(nthreads)]
    if wl['type'] in TYPE_WORD:
        a += ['--type', TYPE_WORD[wl['type']]]
    if wl['gpo'] >= 0:
        a += ['--gpo', repr(float(wl['gpo']))]
    if wl['gpe'] >= 0:
        a += ['--gpe', repr(float(wl['gpe']))]
    if wl['tgpe'] >= 0:
        a += ['--tgpe', repr(float(wl['tgpe']))]
    if quiet:
        a += ['-q']
    return a + list(extra)


def base_plan(pid, world, dec=None, pre=None, trace=True):
    p = Plan(pid)
    p.world = dict(world)
    p.world.setdefault('wall_limit', 20)
    if trace:
        p.world['trace'] = 1
    if dec is not None:
        p.world['explicit'] = 1
        p.dec = list(dec)
        p.pre = list(pre or [])
    return p


def add_entry(p, wl, entry, fmt, nthreads, repeat=False, quiet=1):
    """appends the ops of one alignment request; returns dict of op indices"""
    ix = {}
    if entry == 'A':
        ix['A'] = p.op_A(wl['seqs'], nthreads, wl['type'], wl['gpo'], wl['gpe'], wl['tgpe'])
        if repeat:
            ix['A2'] = p.op_A(wl['seqs'], nthreads, wl['type'], wl['gpo'], wl['gpe'], wl['tgpe'])
    elif entry == 'LIB':
        p.files.append(('in.fa', 'f', fasta_bytes(wl['names'], wl['seqs'])))
        out = 'out.' + EXT[fmt]
        ix['R'] = p.op_R(0, 'in.fa', quiet)
        ix['X'] = p.op_X(0, nthreads, wl['type'], wl['gpo'], wl['gpe'], wl['tgpe'])
        ix['W'] = p.op_W(0, out, fmt)
        ix['F'] = p.op_simple('F', 0)
        if repeat:
            # the same request again in the same process, on fresh objects (re-running a finalised
            # object is a different input and is deliberately not demanded, see DESIGN.md)
            ix['R2'] = p.op_R(1, 'in.fa', quiet)
            ix['X2'] = p.op_X(1, nthreads, wl['type'], wl['gpo'], wl['gpe'], wl['tgpe'])
            ix['W2'] = p.op_W(1, out, fmt)       # same path: the MSF header carries the file name
            ix['F2'] = p.op_simple('F', 1)
    elif entry in ('CLI', 'CLI_STDOUT'):
        p.files.append(('in.fa', 'f', fasta_bytes(wl['names'], wl['seqs'])))
        p.stdin = ('tty', b'')
        out = None if entry == 'CLI_STDOUT' else 'out.' + EXT[fmt]
        ix['CLI'] = p.op_CLI(cli_args(wl, nthreads, fmt, 'in.fa', out, quiet=bool(quiet)))
    ix['L'] = p.op_simple('L')
    return ix


_LOG_TIME = __import__('re').compile(rb'^\[-?\d+-\d\d-\d\d \d\d:\d\d:\d\d\] : ', __import__('re').M)


def _mask_log_time(b):
    """kalign's log lines ('[date time] : LEVEL : ...') carry the wall clock, which legitimately differs between two
    executions of one request; everything else on stdout/stderr is compared byte for byte"""
    return _LOG_TIME.sub(b'[TIME] : ', b) if b'] : ' in b else b


def _drop_log_lines(b):
    """the alignment part of a stream: kalign's log lines removed (they may name the thread count, timings, ...)"""
    if b'] : ' not in b:
        return b
    return b''.join(l for l in b.splitlines(True) if not _LOG_TIME.match(l))


def fingerprint(res, alignment_only=False):
    """everything observable of a run, as a comparable structure (rc, fields, bytes written).  alignment_only: log
    lines on stdout/stderr are left out (used where the two runs differ in thread count: C02 speaks about the
    alignment, and a log line may legitimately name the number of threads)"""
    fp = []
    norm = _drop_log_lines if alignment_only else _mask_log_time
    for i in sorted(res.ops):
        o = res.ops[i]
        fields = tuple(sorted((k, v) for k, v in o.f.items() if k not in ('bits',)))
        outs = tuple(sorted((k, norm(v) if k in ('stdout', 'stderr') and isinstance(v, bytes) else v) for k, v in o.out.items()))
        fp.append((i, o.code, fields, outs))
    return fp


def first_difference(fa, fb):
    for a, b in zip(fa, fb):
        if a != b:
            if a[:3] != b[:3]:
                return 'op %d %s: %s vs %s' % (a[0], a[1], dict(a[2]), dict(b[2]))
            da, db = dict(a[3]), dict(b[3])
            for k in sorted(set(list(da) + list(db))):
                if da.get(k) != db.get(k):
                    x, y = da.get(k), db.get(k)
                    if isinstance(x, bytes) and isinstance(y, bytes):
                        n = next((j for j in range(min(len(x), len(y))) if x[j] != y[j]), min(len(x), len(y)))
                        return 'op %d %s output %s differs at byte %d (%d vs %d bytes): %r vs %r' % (a[0], a[1], k, n, len(x), len(y), x[max(0, n - 10):n + 20], y[max(0, n - 10):n + 20])
                    return 'op %d %s output %s: present in one run only' % (a[0], a[1], k)
    if len(fa) != len(fb):
        return 'different number of completed operations (%d vs %d)' % (len(fa), len(fb))
    return None
