import sys,json
sys.path.insert(0,'/verif/vf')
import check,sim
d=json.load(open(sys.argv[1])); prop=d['property']
mods=check.load_modules(); mod=mods[prop]
spec=d['spec']
bins=check.build_variants(mod.variants(prop,'thorough'))
sim.RUN_DIR=check.make_rundir('dbg')
ws=sim.WorkerSet(bins,'dbg')
res,V=check.execute(mod,spec,ws)
for t,r in res.items():
    print('==',t,r.status,r.crash_class(),r.fatal)
    if r.died: print(r.died[1][:int(sys.argv[2]) if len(sys.argv)>2 else 2500])
    for i in sorted(r.ops):
        o=r.ops[i]; print('  op',i,o.code,o.f,{k:(v[:200] if isinstance(v,bytes) else v) for k,v in o.out.items() if k in('stderr','stdout')})
print([ (v['sig'],v['detail'][:200]) for v in V])
ws.close()
