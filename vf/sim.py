"""Python side of the simrun protocol: plan construction, workers, result parsing."""
import binascii, os, select, signal, subprocess, tempfile, time

VERIF = os.path.dirname(os.path.dirname(os.path.abspath(__file__)))
RUN_DIR = os.path.join(VERIF, 'run')


def hx(b):
    if isinstance(b, str):
        b = b.encode('latin-1')
    return binascii.hexlify(b).decode() if b else '-'


def unhx(s):
    if s == '-':
        return b''
    try:
        return binascii.unhexlify(s)
    except (binascii.Error, ValueError):
        # a worker that dies in the middle of a line leaves a torn record
        s = ''.join(c for c in s if c in '0123456789abcdefABCDEF')
        return binascii.unhexlify(s[:len(s) & ~1])


def fhex(x):
    return float(x).hex()


ERRNO = {'ENOENT': 2, 'EIO': 5, 'EBADF': 9, 'ENOMEM': 12, 'EACCES': 13, 'ENOTDIR': 20, 'EISDIR': 21, 'EMFILE': 24,
         'ENOSPC': 28, 'EROFS': 30, 'ENAMETOOLONG': 36, 'ELOOP': 40}


def _pdeathsig():
    try:
        import ctypes, signal
        libc = ctypes.CDLL('libc.so.6')
        libc.prctl(1, signal.SIGKILL)
        libc.personality(0x0040000)        # ADDR_NO_RANDOMIZE: the same plan in a fresh worker sees the same addresses
    except Exception:
        pass


class Plan:
    """A flat, explicit description of one simulated run."""

    def __init__(self, pid='p'):
        self.pid = pid
        self.world = {}
        self.files = []       # (path, kind, bytes)
        self.faults = []      # (path, op, errno, at)
        self.stdin = None     # (kind, bytes)
        self.ops = []         # list of token lists
        self.dec = None
        self.pre = None

    # -- ops
    def op_A(self, seqs, nthreads, typ, gpo, gpe, tgpe):
        self.ops.append(['A', str(nthreads), str(typ), fhex(gpo), fhex(gpe), fhex(tgpe), str(len(seqs))] + [hx(s) for s in seqs]); return len(self.ops) - 1

    def op_R(self, slot, path, quiet=1, keep=0):
        # keep=1: if this read is refused the caller goes on using the object it already had (with world read_fail_keeps)
        self.ops.append(['R', str(slot), hx(path) if path else '-', str(quiet)] + (['1'] if keep else [])); return len(self.ops) - 1

    def op_X(self, slot, nthreads, typ, gpo, gpe, tgpe):
        self.ops.append(['X', str(slot), str(nthreads), str(typ), fhex(gpo), fhex(gpe), fhex(tgpe)]); return len(self.ops) - 1

    def op_W(self, slot, path, fmt):
        self.ops.append(['W', str(slot), hx(path) if path else '-', hx(fmt) if fmt else '-']); return len(self.ops) - 1

    def op_simple(self, code, *args):
        self.ops.append([code] + [str(a) for a in args]); return len(self.ops) - 1

    def op_CLI(self, argv):
        self.ops.append(['CLI', str(len(argv))] + [hx(a) for a in argv]); return len(self.ops) - 1

    def text(self):
        out = ['plan ' + self.pid]
        for k in sorted(self.world):
            out.append('w %s %d' % (k, self.world[k]))
        if self.dec is not None:
            out.append('dec ' + ' '.join(str(d) for d in self.dec))
        if self.pre is not None:
            out.append('pre ' + ' '.join(str(d) for d in self.pre))
        for p, k, d in self.files:
            out.append('fs %s %s %s' % (hx(p), k, hx(d)))
        for p, op, e, at in self.faults:
            out.append('fault %s %s %d %d' % (hx(p), op, ERRNO.get(e, e) if isinstance(e, str) else e, at))
        if self.stdin is not None:
            out.append('stdin %s %s' % (self.stdin[0], hx(self.stdin[1])))
        for o in self.ops:
            out.append('op ' + ' '.join(o))
        out.append('run')
        return '\n'.join(out) + '\n'


class OpResult:
    __slots__ = ('code', 'f', 'out')

    def __init__(self, code, f):
        self.code, self.f, self.out = code, f, {}

    @property
    def rc(self):
        return int(self.f.get('rc', '-999'))


class Result:
    def __init__(self):
        self.ops = {}
        self.viol = []          # (cls, detail) noted online by the simulator's invariants
        self.fatal = None       # (verdict, detail): DEADLOCK / BUDGET / SIGNAL / UNSUPPORTED / HARNESS / EXIT_IN_TASK
        self.died = None        # (returncode, stderr tail) when the worker process ended without 'done'
        self.evhash = None
        self.evcount = 0
        self.trace = None
        self.pre = None
        self.probes = {}
        self.stats = {}
        self.status = None
        self.evlog = []
        self.wall = 0.0

    def op(self, i):
        return self.ops.get(i)

    def crashed(self):
        return self.fatal is not None or self.died is not None

    def crash_class(self):
        """coarse class for signatures: SIGNAL-11, ASAN:<kind>, UBSAN, DEADLOCK, BUDGET, TIMEOUT ..."""
        if self.fatal:
            v, d = self.fatal
            if v == 'SIGNAL':
                sig = d.split(' ')[0]
                return 'TIMEOUT' if sig == '14' else 'SIGNAL-' + sig
            if v == 'SLOW':
                return 'SLOW'
            return v
        if self.died:
            rc, err = self.died
            if 'AddressSanitizer' in err:
                kind = 'unknown'
                for line in err.splitlines():
                    if 'ERROR: AddressSanitizer:' in line:
                        kind = line.split('AddressSanitizer:')[1].strip().split(' ')[0]
                        break
                return 'ASAN:' + kind
            if 'runtime error:' in err:
                return 'UBSAN'
            if 'LeakSanitizer' in err:
                return 'LSAN'
            if rc == 99 or '== Conditional jump' in err or 'uninitialised value' in err or '== Invalid ' in err:
                for line in err.splitlines():
                    if 'uninitialised' in line:
                        return 'VALGRIND:uninitialised'
                    if 'Invalid read' in line or 'Invalid write' in line or 'Invalid free' in line:
                        return 'VALGRIND:invalid-access'
                return 'VALGRIND:other'
            return 'DIED-%s' % rc
        return None

    def crash_site(self):
        """first kalign frame of a sanitizer report / backtrace (function name), for signatures"""
        err = self.died[1] if self.died else ''
        import re
        if 'runtime error:' in err:
            m = re.search(r'([\w./-]+\.c):(\d+):\d+: runtime error: (.*)', err)
            if m:
                return '%s:%s' % (os.path.basename(m.group(1)), re.sub(r'-?\d+', 'N', m.group(3))[:70].replace(' ', '_'))
        for line in err.splitlines():
            m = re.search(r'==\s+(?:at|by) 0x[0-9A-F]+: ([\w.]+) \((\w+\.c):\d+\)', line)
            if m:
                m_name = m.group(1).split('._omp_fn')[0]
            if m and not m.group(2).startswith(('sim', 'driver', 'hooks', 'tsanhooks')) and m.group(2) not in ('vg_replace_malloc.c',):
                return m_name
            m = re.search(r'#\d+ 0x[0-9a-f]+ in (\w+) .*?/(lib/src|src)/([\w.]+):(\d+)', line)
            if m:
                return m.group(1)
            m = re.search(r'simrun\((\w+)\+0x', line)
            if m and not m.group(1).startswith(('sig_handler', 'sim_', '__wrap', 'GOMP', 'run_task', 'schedule', 'exec_op', 'run_plan', 'driver', 'root_entry', 'end_barrier', 'fiber_')):
                return m.group(1)
        return '?'


EOF = object()


class Worker:
    def __init__(self, binpath, tag='w'):
        self.bin = binpath
        self.tag = tag
        self.p = None
        self.errf = None
        self.nplans = 0
        os.makedirs(RUN_DIR, exist_ok=True)

    def start(self):
        self.errf = tempfile.NamedTemporaryFile(prefix='err-%s-' % self.tag, dir=RUN_DIR, delete=False)
        env = dict(os.environ)
        env['TZ'] = 'UTC'
        env.pop('ASAN_OPTIONS', None)
        cmd = list(self.bin) if isinstance(self.bin, (list, tuple)) else [self.bin]
        self.p = subprocess.Popen(cmd, stdin=subprocess.PIPE, stdout=subprocess.PIPE, stderr=self.errf, bufsize=0, env=env, preexec_fn=_pdeathsig)
        self.buf = b''
        self.nplans = 0

    def stop(self):
        if self.p:
            try:
                self.p.stdin.close()
            except Exception:
                pass
            try:
                self.p.wait(timeout=2)
            except Exception:
                self.p.kill(); self.p.wait()
            self.p = None
        if self.errf:
            try:
                self.errf.close(); os.unlink(self.errf.name)
            except OSError:
                pass
            self.errf = None

    def _stderr_tail(self, n=6000):
        try:
            self.errf.flush()
            with open(self.errf.name, 'rb') as f:
                d = f.read()
            return d[-n:].decode('latin-1')
        except Exception:
            return ''

    def _readline(self, deadline):
        while True:
            i = self.buf.find(b'\n')
            if i >= 0:
                line, self.buf = self.buf[:i], self.buf[i + 1:]
                return line
            t = deadline - time.time()
            if t <= 0:
                return None
            r, _, _ = select.select([self.p.stdout], [], [], min(t, 5.0))
            if r:
                d = os.read(self.p.stdout.fileno(), 1 << 16)
                if not d:
                    return EOF
                self.buf += d

    def run(self, plan, timeout=120):
        """plan: Plan or text. Returns Result. Restarts the worker if it dies."""
        text = plan.text() if isinstance(plan, Plan) else plan
        if self.p is None or self.p.poll() is not None or self.nplans >= 400:
            self.stop(); self.start()
        res = Result()
        t0 = time.time()
        try:
            self.p.stdin.write(text.encode('latin-1'))
            self.p.stdin.flush()
        except (BrokenPipeError, OSError):
            pass
        self.nplans += 1
        deadline = t0 + timeout
        cur = None
        while True:
            line = self._readline(deadline)
            if line is None:
                self.p.kill(); self.p.wait()
                res.died = (-9, 'orchestrator timeout after %ds\n' % timeout + self._stderr_tail())
                res.fatal = res.fatal or ('SIGNAL', '14 orchestrator timeout')
                self.stop()
                break
            if line is EOF:
                try:
                    rc = self.p.wait(timeout=10)
                except Exception:
                    self.p.kill(); rc = self.p.wait()
                res.died = (rc, self._stderr_tail())
                self.stop()
                break
            if not line:
                continue
            t = line.decode('latin-1').split(' ')
            k = t[0]
            try:
                self._parse_line(res, k, t)
            except (ValueError, IndexError, KeyError):
                res.torn = getattr(res, 'torn', 0) + 1      # torn/garbled record from a dying worker
                continue
            if k == 'done' and len(t) > 2:
                if t[2] == 'FATAL':
                    # worker exits after a fatal verdict
                    try:
                        self.p.wait(timeout=5)
                    except Exception:
                        self.p.kill(); self.p.wait()
                    if res.fatal and res.fatal[0] == 'SIGNAL':
                        res.died = (self.p.returncode, self._stderr_tail())
                    self.stop()
                break
        res.wall = time.time() - t0
        return res

    def _parse_line(self, res, k, t):
        if True:
            if k == 'r':
                f = {}
                for kv in t[3:]:
                    if '=' in kv:
                        a, b = kv.split('=', 1); f[a] = b
                cur = OpResult(t[2], f)
                res.ops[int(t[1])] = cur
            elif k == 'o':
                i = int(t[1])
                o = res.ops.get(i)
                if o is None:
                    o = OpResult('?', {}); res.ops[i] = o
                if t[2].startswith('filex:'):
                    t[2] = 'file:' + unhx(t[2][6:]).decode('latin-1')
                if t[2].startswith('seq') and len(t) >= 7:
                    o.out[t[2]] = (unhx(t[3]), int(t[4]), unhx(t[5]), t[6])
                else:
                    o.out[t[2]] = unhx(t[3]) if len(t) > 3 else b''
            elif k == 'v':
                res.viol.append((t[1], ' '.join(t[2:])))
            elif k == 'fatal':
                res.fatal = (t[1], ' '.join(t[2:]))
            elif k == 'ev':
                res.evhash, res.evcount = t[1], int(t[2])
            elif k == 'tr':
                res.trace = [tuple(int(x) for x in e.split(':')) for e in t[2:]]
            elif k == 'pt':
                res.pre = [int(x) for x in t[2:]]
            elif k == 'e':
                res.evlog.append(' '.join(t[1:]))
            elif k == 'pb':
                for kv in t[1:]:
                    a, b = kv.split('='); res.probes[a] = int(b)
            elif k == 'st':
                for kv in t[1:]:
                    a, b = kv.split('='); res.stats[a] = int(b)
            elif k == 'done':
                res.status = t[2]


class WorkerSet:
    """lazily started workers, one per build variant, for one orchestrator process"""

    def __init__(self, bins, tag='w'):
        self.bins = bins
        self.tag = tag
        self.w = {}

    def run(self, variant, plan, timeout=120):
        w = self.w.get(variant)
        if w is None:
            w = Worker(self.bins[variant], '%s-%s' % (self.tag, variant))
            self.w[variant] = w
        return w.run(plan, timeout)

    def fresh(self):
        """force new processes (history independence, determinism gate)"""
        self.close()

    def close(self):
        for w in self.w.values():
            w.stop()
        self.w = {}
