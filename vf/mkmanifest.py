#!/usr/bin/env python3
"""Writes /verif/MANIFEST.json (kept in a script so the claimed list and the not_applicable list stay in step)."""
import json, os, subprocess, sys

VERIF = os.path.dirname(os.path.dirname(os.path.abspath(__file__)))

NA = {
    "C03": "pure function of the input (a permutation metamorphic relation on a sequential qsort + rank restore); no schedule, fault, clock or history in it beyond what C02 covers - DESIGN.md section 5",
    "C07": "pure function: needs an independent full-matrix aligner as oracle; the serial/parallel Hirschberg switch is a configuration branch whose schedule side is decided under C02 - DESIGN.md section 5",
    "C08": "pure function: input family plus output predicate - DESIGN.md section 5",
    "C09": "pure function of configuration (finite parameter table and --type words) - DESIGN.md section 5",
    "C11": "pure function: arithmetic on two arrays (bit-parallel edit distance) - DESIGN.md section 5",
    "C12": "pure function: input family with an edit-distance premise plus output predicate - DESIGN.md section 5",
    "C13": "pure function: residue histogram to log-likelihood comparison - DESIGN.md section 5",
    "C14": "pure function: metamorphic relation on letters - DESIGN.md section 5",
    "C17": "pure function: needs an independent implementation of the score; its call-history side is exercised under C16 - DESIGN.md section 5",
}

CLAIMS = {
    "C01": dict(cat="exploration", ref="4/C01",
        text="Integrity oracle (independent parsers; rows, order, names, degap==input, no all-gap column, only '-' added) evaluated on every output of every simulated execution: sequential reference plus seeded OpenMP schedules, both entry points, CLI file and stdout, three formats. Sampling over inputs and schedules, not proof.",
        note="trusts the harness parsers and the simomp model; inputs are generated families (2-240 sequences, 1-1500 residues), not the full input space",
        tech="deterministic simulation: seeded OpenMP schedules + invariant on every run"),
    "C02": dict(cat="exploration", ref="4/C02",
        text="Every alignment request is executed by the sequential elision of kalign (reference model, twice with different heap garbage) and by 3-16 simulated OpenMP executions whose team sizes, task deferral, task pick order, thread interleaving (at hook events and at compiler-instrumented memory accesses), stalls and nesting ICV are drawn from one seed; the alignment (files, returned rows, return codes, stdout without kalign's log lines) must be byte-identical and the ordering invariants (merge after children, meetup after both halves, k-means reduce after splits, join after subtrees) are checked online from KALIGN_VERIF events.",
        note="simomp is a model of a conforming OpenMP runtime (self-tested by check.py omptest): sequential consistency for plain accesses, x86-TSO store buffers for atomics in the preempt build; reordering of plain racy accesses and libgomp-specific behaviour are out of reach; seeded search, not exhaustive",
        tech="deterministic simulation with seeded scheduler (fibers behind the libgomp ABI), reference-model byte equality, online ordering invariants"),
    "C10": dict(cat="exploration", ref="4/C10",
        text="At every node completion (KALIGN_VERIF MERGE_END) the node's sub-alignment is snapshotted; at the end of the run the final alignment - both the gap vectors at RUN_END and the rows kalign finally hands out (finalised object after kalign_run, rows returned by kalign()) - is projected onto each node's members (all-gap columns removed) and must equal the snapshot, for every internal node of the tree actually used, under the sequential reference and seeded schedules including access-level preemption.",
        note="snapshot is a 64-bit canonical hash of member ranks and residue columns; nodes above 4M residues are skipped and counted",
        tech="deterministic simulation: seeded schedules + node-completion snapshots vs final projection"),
    "C04": dict(cat="exploration", ref="4/C04",
        text="The same records are delivered to kalign through the simulated file layer in different presentations (gap insertion, FASTA/aligned FASTA/MSF/Clustal written by independent emitters, line widths, blank lines, CRLF, ragged padding, 1-4 sources in order incl. stdin, pipe-like files and an empty source, seeded read chunking, library path and CLI); parsed output rows must equal those of the canonical single-FASTA presentation.",
        note="presentations are generated well-formed files; the textual re-presentation dimension is input generation, the simulator contributes sources, stdin and chunking",
        tech="deterministic simulation of the stream layer (fopencookie chunking, multi-source, stdin) + differential oracle"),
    "C05": dict(cat="fault_enumeration", ref="4/C05",
        text="CLI and library runs under ASan+UBSan with junk-filled heap over well-formed, mutated and hostile inputs and option strings; 1-3 input sources, in-place output, reformat/check calls between read and run; for each sampled workload every single-fault placement of the gating I/O fault kinds (stat/fopen errors for every input source and for the output, read EIO at each read index, directory as input, stdin kinds) is enumerated, plus the runtime fault that a team cannot be started (absurd thread counts); outcome must be success-with-valid-alignment or failure-status-with-message; never a sanitizer report, signal, leak on success, hang, or result that depends on uninitialised memory; a valgrind sample covers uninitialised-value use.",
        note="allocation failure and write-side disk faults are simulated but not gating (no listed property speaks about them); hang detection uses a wall-clock watchdog and step budgets",
        tech="deterministic simulation with I/O fault enumeration (simfs), sanitizers, junk-fill differential for uninitialised reads"),
    "C06": dict(cat="exploration", ref="4/C06",
        text="Alignments produced by real simulated runs are written by kalign in each format into the simulated file layer, served back to kalign's reader under seeded chunking, and the re-read object (names, residues, gap vectors) is compared with what was written, for all ordered format pairs.",
        note="narrow claim: the input dimension is plain generation; simulation contributes the file layer, chunking and clock",
        tech="deterministic simulation of the file layer + round-trip oracle"),
    "C15": dict(cat="exploration", ref="4/C15",
        text="Every file written in simulated runs is parsed by strict independent parsers: FASTA wrap at 60, Clustal/MSF header and blocks, every sequence in every block, MSF length, per-row and global GCG checksums and molecule type; simulated clock epochs vary the header date.",
        note="narrow claim: observation at the simulated file layer with the clock under control; alignment dimension is plain generation",
        tech="deterministic simulation (file layer + clock) + strict independent parsers"),
    "C16": dict(cat="exploration", ref="4/C16",
        text="Seeded histories of API calls (kalign(), read with 1-3 files incl. sources that are refused, run, write, compare, reformat_settings_msa, kalign_check_msa, free, CLI main) over several msa slots are executed in one process; each call's result must equal the result of its data slice executed alone in a fresh process, under different schedules and heap garbage; after the objects are freed the allocator's live set of kalign allocations must be empty.",
        note="fresh-process reference of the same build (a refused source is left out of the reference: it must change nothing); the leak clause also gates after failed library calls, not after a failed CLI main",
        tech="deterministic simulation over call histories with fresh-process reference model and allocation accounting"),
}


def main():
    have = [p for p in sorted(CLAIMS) if p in enabled()]
    hooks = subprocess.run(['git', '-C', '/repo', 'log', '--format=%h %s'], capture_output=True, text=True).stdout.splitlines()
    hook_commits = [l.split(' ')[0] for l in hooks if l.split(' ', 1)[1].startswith('verif hook:')]
    m = {
        "version": 1,
        "setup_cmd": "python3 vf/build.py plain asan preempt serial && python3 vf/check.py omptest 45 && python3 vf/check.py determinism 6",
        "hooks": {"guard": "KALIGN_VERIF",
                  "enable": "vf/build.py compiles /repo/lib/src/*.c, src/run_kalign.c, src/parameters.c with -DKALIGN_VERIF for every variant; the callback pointer kalign_verif_cb is defined by the harness (sim/hooks.c)",
                  "baseline_off_cmd": "cmake -G Ninja -S /repo -B /repo/_build >/dev/null && cmake --build /repo/_build >/dev/null && ctest --test-dir /repo/_build -j8 --timeout 900",
                  "source_commits": hook_commits, "add_only": True},
        "engines": [{"name": "simrun", "path": "sim/", "serves_properties": have,
                     "kind_free_text": "deterministic simulator linked with the real kalign sources: seeded OpenMP runtime on fibers behind the libgomp ABI (simomp), fopencookie file layer with fault injection (simfs), simulated clock, junk-filling accounting allocator, KALIGN_VERIF event handler with online invariants; Python orchestrator (vf/check.py) generates plans, runs 16 workers, applies cross-run oracles, gates, minimises and replays"}],
        "checks": [],
        "notes": "exit 0 = held on everything explored (KNOWN-FINDING lines allowed), exit 1 = VIOLATION line with a verified replay file, exit 2 = harness problem. VERIF_SEED selects the seed; VERIF_BUDGET_S overrides the job time budget.",
        "not_applicable": [{"property_id": k, "reason": v} for k, v in sorted(NA.items())],
    }
    for p in sorted(CLAIMS):
        if p not in have:
            m["not_applicable"].append({"property_id": p, "reason": "planned in DESIGN.md, check not built yet - not claimed until it exists"})
            continue
        c = CLAIMS[p]
        m["checks"].append({
            "property_id": p,
            "quick_cmd": "python3 vf/check.py %s quick" % p,
            "thorough_cmd": "python3 vf/check.py %s thorough" % p,
            "evidence_file": "/verif/evidence/%s.json" % p,
            "replay_cmd_template": "python3 vf/check.py replay {path}",
            "engine": "simrun",
            "level_claimed": {"category": c["cat"], "text": c["text"], "design_ref": "DESIGN.md section " + c["ref"]},
            "level_note": c["note"],
            "technique": c["tech"],
        })
    m["not_applicable"].sort(key=lambda x: x["property_id"])
    with open(os.path.join(VERIF, 'MANIFEST.json'), 'w') as f:
        json.dump(m, f, indent=1)
    print('claimed:', have)


def enabled():
    here = os.path.join(VERIF, 'vf')
    out = []
    mods = {'C01': 'props_sched', 'C02': 'props_sched', 'C10': 'props_sched', 'C04': 'props_c04', 'C05': 'props_c05', 'C06': 'props_io', 'C15': 'props_io', 'C16': 'props_c16'}
    for p, m in mods.items():
        if os.path.exists(os.path.join(here, m + '.py')):
            out.append(p)
    return out


if __name__ == '__main__':
    main()
