#!/bin/bash
# Confirm a seeded change independently, in a scratch worktree outside /repo and /verif:
#   clean tree: demo passes;  patched tree: builds, 12/12 pinned tests pass, demo fails.
# usage: verify_mutant.sh <dir with patch.diff + demo.(sh|c)> [demo command run from the worktree root]
set -u
M=$(readlink -f "$1"); shift
DEMO_CMD="${*:-}"
W=/tmp/vm.$$
git -C /repo worktree add --detach "$W" HEAD >/dev/null 2>&1 || { echo "worktree failed"; exit 2; }
trap 'git -C /repo worktree remove --force "$W" >/dev/null 2>&1; rm -rf "$W"' EXIT
cd "$W" || exit 2
mkdir -p MUTANT && cp "$M"/* MUTANT/ 2>/dev/null
if [ -z "$DEMO_CMD" ]; then
  if [ -f MUTANT/demo.sh ]; then DEMO_CMD="sh MUTANT/demo.sh";
  else DEMO_CMD="gcc -O1 -fopenmp -Ilib/include MUTANT/demo.c _build/lib/libkalign_static.a -lm -o _build/demo_bin && timeout 300 ./_build/demo_bin"; fi
fi
build() { cmake -G Ninja -S . -B _build >/dev/null 2>&1 && cmake --build _build >/dev/null 2>&1; }
echo "== clean tree"
build || { echo "clean build failed"; exit 2; }
( eval "$DEMO_CMD" ) </dev/null >/tmp/vm.$$.clean.log 2>&1; RC_CLEAN=$?
echo "demo on clean tree: exit $RC_CLEAN"
echo "== patched tree"
git apply MUTANT/patch.diff || { echo "patch does not apply"; exit 2; }
build || { echo "PATCHED BUILD FAILED"; exit 3; }
ctest --test-dir _build -j8 --timeout 900 </dev/null 2>&1 | grep -E "tests passed|tests failed" ;
( eval "$DEMO_CMD" ) </dev/null >/tmp/vm.$$.patched.log 2>&1; RC_PATCHED=$?
echo "demo on patched tree: exit $RC_PATCHED"
tail -3 /tmp/vm.$$.patched.log
rm -f /tmp/vm.$$.clean.log /tmp/vm.$$.patched.log
if [ $RC_CLEAN -eq 0 ] && [ $RC_PATCHED -ne 0 ]; then echo "CONFIRMED"; else echo "NOT-CONFIRMED"; fi
