import subprocess,binascii,sys,os
sys.path.insert(0, os.path.dirname(__file__))
import build
hx=lambda b: binascii.hexlify(b).decode() if b else '-'
seqs=[b"ACGTACGTACGTACGTACGTTTGACCA",b"ACGTACGTACGTTTGACCA",b"ACGTACGGTACGTACGTACGTTTGA",b"GTACGTACGTACGTTTGACCAAA"]
fa=b"".join(b">s%d\n%s\n"%(i,s) for i,s in enumerate(seqs))
plan=["plan t1","w sched_seed 5","w p_defer 40000","w p_switch 20000","w nthreads_icv 4","w trace 1","w evlog 0",
 "fs %s f %s"%(hx(b"in.fa"),hx(fa)),
 "op A 4 5 -0x1p+0 -0x1p+0 -0x1p+0 4 "+" ".join(hx(s) for s in seqs),
 "op R 0 %s 1"%hx(b"in.fa"), "op X 0 3 5 -1 -1 -1", "op W 0 %s %s"%(hx(b"out.msf"),hx(b"msf")), "op W 0 - %s"%hx(b"clu"), "op F 0", "op L",
 "op CLI 5 %s %s %s %s %s"%(hx(b"-i"),hx(b"in.fa"),hx(b"-o"),hx(b"o2.fa"),hx(b"-q")),"op L",
 "op CLI 2 %s %s"%(hx(b"in.fa"),hx(b"in.fa")),"op L",
 "run","quit"]
b=build.build(sys.argv[1] if len(sys.argv)>1 else 'plain')
r=subprocess.run([b],input="\n".join(plan)+"\n",capture_output=True,text=True)
for l in r.stdout.splitlines():
    t=l.split(' ')
    if t[0]=='o' and len(t)>=4 and not t[2].startswith('seq'):
        print(t[0],t[1],t[2]); print(binascii.unhexlify(t[3]).decode(errors='replace') if t[3]!='-' else '')
    else: print(l[:300])
print("STDERR",r.stderr[-3000:], r.returncode)
