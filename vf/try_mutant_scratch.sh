#!/bin/bash
# like try_mutant.sh, but in a scratch worktree (KALIGN_SRC=) so that /repo is not touched while
# background runs use it.  usage: try_mutant_scratch.sh <dir with patch.diff> <props...>
M=$(readlink -f "$1"); shift
W=/tmp/tm.$$
git -C /repo worktree add --detach "$W" HEAD >/dev/null 2>&1 || exit 2
trap 'git -C /repo worktree remove --force "$W" >/dev/null 2>&1; rm -rf "$W"' EXIT
git -C "$W" apply "$M/patch.diff" || { echo "patch does not apply"; exit 2; }
cd /verif
for p in "$@"; do
  echo "--- $p"
  KALIGN_SRC="$W" python3 vf/check.py $p ${TIER:-quick} 2>&1 | grep -E "VIOLATION|candidate|UNCONFIRMED|HARNESS|BUILD|quick:|thorough:|minimised|note:" | cut -c1-420 | head -12
done
