"""Seeded workload generation: sequence families, names, configurations, world (schedule/fault) configs.

Everything is a pure function of the random.Random passed in; no iteration over sets or dicts."""
import random

DNA = 'ACGT'
RNA = 'ACGU'
DNA_AMBIG = 'NRYSWKMBDHV'
PROT = 'ACDEFGHIKLMNPQRSTVWY'
PROT_AMBIG = 'BZX'
NAME_SAFE = 'ABCDEFGHIJKLMNOPQRSTUVWXYZabcdefghijklmnopqrstuvwxyz0123456789_.|-'

T_DNA, T_DNA_INTERNAL, T_RNA, T_PROTEIN, T_PROTEIN_DIVERGENT, T_UNDEF = 0, 1, 2, 3, 4, 5


def splitmix(x):
    x = (x + 0x9E3779B97F4A7C15) & 0xFFFFFFFFFFFFFFFF
    z = x
    z = ((z ^ (z >> 30)) * 0xBF58476D1CE4E5B9) & 0xFFFFFFFFFFFFFFFF
    z = ((z ^ (z >> 27)) * 0x94D049BB133111EB) & 0xFFFFFFFFFFFFFFFF
    return z ^ (z >> 31)


def derive_seed(seed, prop, index):
    h = splitmix(seed & 0xFFFFFFFFFFFFFFFF)
    for ch in prop.encode():
        h = splitmix(h ^ ch)
    return splitmix(h ^ (index * 0x632BE59BD9B4E019 & 0xFFFFFFFFFFFFFFFF))


def rand_seq(rng, alpha, n):
    return ''.join(rng.choice(alpha) for _ in range(n))


def mutate(rng, s, alpha, psub, pindel, maxindel=6):
    out = []
    i = 0
    n = len(s)
    while i < n:
        r = rng.random()
        if r < pindel / 2:                       # deletion
            i += 1 + min(int(rng.expovariate(0.6)), maxindel)
            continue
        if r < pindel:                           # insertion
            out.append(rand_seq(rng, alpha, 1 + min(int(rng.expovariate(0.6)), maxindel)))
        c = s[i]
        if rng.random() < psub:
            c = rng.choice(alpha)
        out.append(c)
        i += 1
    t = ''.join(out)
    return t if t else rng.choice(alpha)


def family(rng, alpha, n, L, shape, psub, pindel):
    anc = rand_seq(rng, alpha, max(1, L))
    if shape == 'star':
        return [mutate(rng, anc, alpha, psub, pindel) for _ in range(n)]
    if shape == 'caterpillar':
        out = []
        cur = anc
        for _ in range(n):
            cur = mutate(rng, cur, alpha, psub * 0.5, pindel * 0.5)
            out.append(cur)
        return out
    if shape == 'clusters':
        k = rng.randint(2, max(2, min(8, n // 2)))
        centers = [mutate(rng, anc, alpha, min(0.9, psub * 4), pindel * 2) for _ in range(k)]
        return [mutate(rng, centers[rng.randrange(k)], alpha, psub * 0.5, pindel * 0.5) for _ in range(n)]
    if shape == 'twoclusters':
        # two tight clusters of equal-length sequences (substitutions only): symmetric k-means splits with
        # exactly equal scores and equal-length profiles, i.e. ties everywhere a tie can be
        ca = mutate(rng, anc, alpha, 0.3, 0.0); cb = mutate(rng, anc, alpha, 0.3, 0.0)
        na = rng.randint(max(1, n // 4), max(1, 3 * n // 4))
        out = [mutate(rng, ca, alpha, psub * 0.2, 0.0) for _ in range(na)] + [mutate(rng, cb, alpha, psub * 0.2, 0.0) for _ in range(n - na)]
        rng.shuffle(out)
        return out
    if shape == 'haplotypes':
        # a few variants of one sequence (wild type, edit set X, edit set Y, X+Y), many exact copies of each:
        # the k-means centre sits in the middle of a "square" and mirrored start points are exactly equidistant,
        # so decisions hang on the last bit of a floating-point sum
        def edit(s, pos):
            b = list(s)
            for q in pos:
                b[q] = rng.choice([c for c in alpha if c != b[q]])
            return ''.join(b)
        Lh = len(anc)
        pos = rng.sample(range(Lh), min(Lh, rng.randint(2, 12)))
        X, Y = pos[:len(pos) // 2], pos[len(pos) // 2:]
        vs = [anc, edit(anc, X), edit(anc, Y)]
        vs.append(''.join(vs[1][q] if q in X else vs[2][q] for q in range(Lh)))
        vs = vs[:rng.choice([2, 3, 4, 4, 4])]
        out = []
        for k in range(len(vs)):
            out += [vs[k]] * (n // len(vs) + (1 if k < n % len(vs) else 0))
        if rng.random() < 0.3:
            rng.shuffle(out)
        return out
    if shape == 'outlier':
        # n-1 near-identical sequences and one (or two) unrelated ones: k-means splits "outlier | rest", a side with a
        # single member, UPGMA leaf groups of size 1
        k = rng.choice([1, 1, 2])
        out = [mutate(rng, anc, alpha, psub * 0.05, 0.0) for _ in range(n - k)] + [rand_seq(rng, alpha, max(1, int(len(anc) * rng.uniform(0.7, 1.4)))) for _ in range(k)]
        rng.shuffle(out)
        return out
    if shape == 'broom':
        # a deep, narrow UPGMA tree (< 100 sequences): two tight pairs next to the ancestor, then a handle of items
        # at slowly growing distance, each joined on top of everything closer; some items are PAIRS, so that nodes
        # with two internal children ("forks") occur at many depths, also far below the root
        Lh = len(anc)
        def edit(s, k):
            b = list(s)
            for q in rng.sample(range(Lh), min(Lh, k)):
                b[q] = rng.choice([c for c in alpha if c != b[q]])
            return ''.join(b)
        out = [anc, edit(anc, 1)]
        bb = edit(anc, 3)
        out += [bb, edit(bb, 1)]
        step = rng.choice([2, 3])
        ppair = rng.choice([0.08, 0.15, 0.25])
        k = 0
        while len(out) < n:
            k += 1
            item = edit(anc, 5 + k // step)
            out.append(item)
            if len(out) < n and rng.random() < ppair:
                out.append(edit(item, 1))
        rng.shuffle(out)
        return out[:n]
    if shape == 'balanced':
        pool = [anc]
        while len(pool) < n:
            nxt = []
            for s in pool:
                nxt.append(mutate(rng, s, alpha, psub * 0.6, pindel * 0.6))
                nxt.append(mutate(rng, s, alpha, psub * 0.6, pindel * 0.6))
            pool = nxt
        rng.shuffle(pool)
        return pool[:n]
    # 'random': unrelated
    return [rand_seq(rng, alpha, max(1, int(L * rng.uniform(0.5, 1.5)))) for _ in range(n)]


def gen_names(rng, n, maxlen=24, charset=NAME_SAFE):
    """pairwise distinct names (the index is always part of the name)"""
    style = rng.randrange(3)
    names = []
    for i in range(n):
        if style == 0:
            nm = 's%d' % i
        elif style == 1:
            nm = 'seq_%d|%s' % (i, rand_seq(rng, charset, rng.randint(0, 6)))
        else:
            tail = '.%d' % i
            nm = rand_seq(rng, NAME_SAFE[:62], 1) + rand_seq(rng, charset, rng.randint(0, max(0, maxlen - 1 - len(tail)))) + tail
        names.append(nm)
    return names


def sprinkle(rng, s, letters, rate):
    if rate <= 0:
        return s
    return ''.join(rng.choice(letters) if rng.random() < rate else c for c in s)


def recase(rng, s, mode):
    if mode == 0:
        return s
    if mode == 1:
        return s.lower()
    return ''.join(c.lower() if rng.random() < 0.3 else c for c in s)


EXACT_LENGTHS = [255, 256, 257, 511, 512, 513, 1023, 1024, 1025, 1535, 1536, 1537, 2047, 2048, 2049]


def force_exact_length(rng, wl):
    """one record (or all of a small set) gets a residue count that sits exactly on a buffer size of the readers"""
    alpha = {'dna': DNA, 'rna': RNA, 'protein': PROT}[wl['kind']]
    B = rng.choice(EXACT_LENGTHS)
    ks = [rng.randrange(len(wl['seqs']))] if rng.random() < 0.7 else list(range(min(3, len(wl['seqs']))))
    for k in ks:
        x = wl['seqs'][k]
        wl['seqs'][k] = (x * (B // max(1, len(x)) + 1))[:B] if rng.random() < 0.5 and x else (x + rand_seq(rng, alpha, B))[:B]
    return wl


PROFILES = ['tiny', 'small', 'medium', 'kmeans', 'hirsch', 'ratio', 'dups']     # + 'large' (thorough tier, explicit only)


def gen_workload(rng, profile=None, kinds=('dna', 'rna', 'protein'), weights=None):
    """returns a JSON-able dict: kind, names, seqs (str), type, gpo, gpe, tgpe, profile"""
    if profile is None:
        profile = rng.choices(PROFILES, weights or [20, 35, 15, 8, 8, 7, 7])[0]
    kind = rng.choice(list(kinds))
    alpha = {'dna': DNA, 'rna': RNA, 'protein': PROT}[kind]
    shape = rng.choice(['star', 'caterpillar', 'clusters', 'balanced', 'random'])
    psub = rng.choice([0.0, 0.02, 0.1, 0.25, 0.5])
    pindel = rng.choice([0.0, 0.01, 0.05, 0.15])
    if profile == 'tiny':
        n, L = rng.randint(2, 4), rng.randint(1, 12)
    elif profile == 'small':
        n, L = rng.randint(2, 12), rng.randint(5, 120)
    elif profile == 'medium':
        n, L = rng.randint(10, 60), rng.randint(20, 260)
    elif profile == 'kmeans':
        n, L = rng.randint(100, 240), rng.randint(12, 70)
        shape = rng.choice(['clusters', 'balanced', 'caterpillar', 'star', 'twoclusters', 'twoclusters', 'haplotypes', 'haplotypes', 'outlier', 'outlier'])
    elif profile == 'hirsch':
        n, L = rng.randint(2, 5), rng.randint(500, 1500)
        psub = rng.choice([0.02, 0.1, 0.25]); pindel = rng.choice([0.0, 0.01, 0.03])
    elif profile == 'ratio':
        n, L = rng.randint(3, 10), rng.randint(150, 900)
    elif profile == 'boundary':
        # sizes at the switches and buffer sizes of the implementation: 100 sequences (UPGMA/k-means), 500 columns
        # (serial/parallel Hirschberg), 256/384/512/576 (DP and path buffers), 512 (sequence buffers), 60 (blocks)
        n = rng.choice([2, 3, 4, 8, 98, 99, 100, 101, 102, 128])
        L = rng.choice([1, 2, 3, 59, 60, 61, 119, 120, 121, 254, 255, 256, 257, 383, 384, 385, 498, 499, 500, 501, 502, 511, 512, 513, 575, 576, 577, 1023, 1024, 1025])
        if n >= 98 and L > 260:
            L = rng.choice([59, 60, 61, 119, 120, 121, 255, 256, 257])
        shape = rng.choice(['star', 'balanced', 'twoclusters'])
        psub = rng.choice([0.0, 0.05, 0.2]); pindel = rng.choice([0.0, 0.0, 0.01])
    elif profile == 'seqcap':
        # record counts at the growth step of the sequence array (512 entries at a time, grown lazily by the readers)
        n = rng.choice([511, 512, 512, 512, 513, 1023, 1024, 1024, 1025])
        L = rng.randint(4, 10)
        shape = rng.choice(['clusters', 'balanced', 'star'])
    elif profile == 'broom':
        # 75-99 sequences of 500-900 residues whose guide tree is 45-75 levels deep
        n, L = rng.randint(75, 99), rng.randint(500, 900)
        shape = 'broom'; psub = 0.0; pindel = 0.0
    elif profile == 'manylines':
        # more than 1024 output lines in Clustal/MSF (line-buffer growth) and hundreds of rows per block
        n, L = rng.randint(150, 420), rng.randint(130, 300)
        shape = rng.choice(['star', 'clusters']); psub = rng.choice([0.05, 0.2]); pindel = rng.choice([0.0, 0.01])
    elif profile == 'many':
        # several hundred short sequences: groups of more than 256 members, deep k-means recursion, > 512 leaves
        n, L = rng.randint(258, 720), rng.randint(6, 22)
        shape = rng.choice(['clusters', 'balanced', 'caterpillar', 'star'])
    elif profile == 'multilong':
        # many merges of long sequences: several tree-parallel merges above the 256/384-entry buffer sizes at once
        n, L = rng.randint(6, 28), rng.randint(390, 620)
        shape = rng.choice(['clusters', 'balanced', 'star'])
        psub = rng.choice([0.02, 0.1, 0.25]); pindel = rng.choice([0.0, 0.01, 0.03])
    elif profile == 'large':
        # "thousands of sequences / thousands of residues" - few of these, thorough tier only
        if rng.random() < 0.5:
            n, L = rng.randint(600, 2200), rng.randint(15, 60)
            shape = rng.choice(['clusters', 'balanced', 'caterpillar'])
        else:
            n, L = rng.randint(3, 8), rng.randint(2000, 4000)
            psub = rng.choice([0.02, 0.1]); pindel = rng.choice([0.0, 0.01])
            shape = rng.choice(['star', 'balanced', 'caterpillar'])      # related sequences: 'random' would make lengths up to 1.5 L
    else:  # dups
        n, L = rng.randint(3, 30), rng.randint(5, 150)
    if n > 150 and shape == 'caterpillar':
        # hundreds of accumulated indel steps make the members unrelated and the alignment tens of thousands of
        # columns wide (47 MB of Clustal output for 72-residue sequences): keep the chain substitution-only
        pindel = 0.0
    seqs = family(rng, alpha, n, L, shape, psub, pindel)
    if profile in ('many', 'seqcap', 'kmeans', 'manylines'):
        # hundreds of sequences are meant to be short: a caterpillar family of 600 steps would otherwise drift to
        # 1000 residues through accumulated insertions (minutes per run)
        seqs = [x[:4 * L + 8] for x in seqs]
    if profile == 'ratio':
        for _ in range(rng.randint(1, 2)):
            seqs[rng.randrange(n)] = rand_seq(rng, alpha, rng.randint(1, 4))
    if profile == 'boundary' and rng.random() < 0.25:
        seqs = [seqs[0]] * n                      # all identical
    if profile == 'boundary' and rng.random() < 0.1:
        seqs = [('N' if kind != 'protein' else 'X') * len(x) for x in seqs]      # all-ambiguous residues
    if profile == 'dups' or rng.random() < 0.1:
        for _ in range(rng.randint(1, max(1, n // 2))):
            seqs[rng.randrange(n)] = seqs[rng.randrange(n)]
    amb = rng.choice([0, 0, 0, 0.01, 0.03])
    if amb and shape not in ('haplotypes', 'broom'):        # (exact copies stay exact)
        seqs = [sprinkle(rng, s, DNA_AMBIG if kind != 'protein' else PROT_AMBIG, amb) for s in seqs]
    foreign = rng.choice([0, 0, 0, 0, 0, 0.01, 0.04])
    if foreign and shape not in ('haplotypes', 'broom'):
        # letters kalign accepts although they are outside its alphabets (X in nucleotides; J, O, U in protein):
        # they get an internal class of their own but must come back unchanged in every output
        seqs = [sprinkle(rng, s, 'X' if kind != 'protein' else 'JOU', foreign) for s in seqs]
    case_mode = rng.choice([0, 0, 0, 1, 2])
    seqs = [recase(rng, s, case_mode) for s in seqs]
    names = gen_names(rng, n)
    if kind == 'protein':
        typ = rng.choice([T_UNDEF, T_UNDEF, T_PROTEIN, T_PROTEIN_DIVERGENT])
    else:
        typ = rng.choice([T_UNDEF, T_UNDEF, T_DNA, T_DNA_INTERNAL, T_RNA])
    r = rng.random()
    zero_share = 0.20 if profile in ('hirsch', 'multilong', 'large') else 0.04
    if r < zero_share:
        # gaps cost nothing (or next to nothing): every gap configuration ties, opposite gap types can meet
        gpo, gpe, tgpe = rng.choice([(0.0, 0.0, 0.0), (0.0, 0.0, 0.0), (0.0, 0.0, 1.0), (0.5, 0.0, 0.0), (0.0, 0.25, 0.0)])
    elif r < zero_share + 0.22:
        gpo, gpe, tgpe = rng.choice([0.0, 1.0, 5.5, 8.0, 20.0, 55.0, 217.0]), rng.choice([0.0, 0.5, 1.0, 2.0, 8.0, 39.4]), rng.choice([0.0, 0.25, 1.0, 4.0, 292.6])
    elif r < zero_share + 0.25:
        # very large (but accepted) penalties
        gpo, gpe, tgpe = rng.choice([1e4, 1e6, 9e8]), rng.choice([1e3, 1e6]), rng.choice([0.0, 1e6])
    else:
        gpo = gpe = tgpe = -1.0
    return {'kind': kind, 'profile': profile, 'shape': shape, 'names': names, 'seqs': seqs,
            'type': typ, 'gpo': gpo, 'gpe': gpe, 'tgpe': tgpe}


def fasta_bytes(names, seqs, width=0):
    out = []
    for n, s in zip(names, seqs):
        out.append('>' + n + '\n')
        if width and width > 0:
            for i in range(0, len(s), width):
                out.append(s[i:i + width] + '\n')
            if not s:
                out.append('\n')
        else:
            out.append(s + '\n')
    return ''.join(out).encode('latin-1')


# ---------------------------------------------------------------- worlds (schedules and faults)

def gen_world(rng, nthreads=None, preempt=False, calm=False):
    """swarm-style: each run enables a random subset of the scheduler's freedoms with its own rates"""
    w = {}
    w['sched_seed'] = rng.getrandbits(62)
    w['junk_seed'] = rng.getrandbits(62)
    w['fs_seed'] = rng.getrandbits(62)
    w['nthreads_icv'] = rng.choice([1, 2, 3, 4, 8, 16, 64])
    w['max_active_levels'] = rng.choice([1, 1, 1, 2, 3])
    w['thread_limit'] = rng.choice([64, 64, 64, 16, 8, 3, 2])
    if calm:
        w['p_defer'] = 0; w['p_switch'] = 0; w['p_hook_yield'] = 0
        return w
    style = rng.randrange(6)
    if style == 0:      # nearly sequential
        w['p_defer'] = rng.choice([0, 3000]); w['p_switch'] = rng.choice([0, 2000]); w['p_hook_yield'] = 0
    elif style == 1:    # libgomp-like: always defer, lifo at taskwait
        w['p_defer'] = 65536; w['p_switch'] = rng.choice([8000, 30000]); w['p_hook_yield'] = rng.choice([0, 4000]); w['pick_order'] = 1
    elif style == 2:    # maximally adversarial
        w['p_defer'] = 65536; w['p_switch'] = 50000; w['p_hook_yield'] = rng.choice([20000, 50000]); w['pick_order'] = 2
    else:
        w['p_defer'] = rng.choice([16000, 32000, 50000, 65536])
        w['p_switch'] = rng.choice([4000, 16000, 32000, 50000])
        w['p_hook_yield'] = rng.choice([0, 2000, 10000, 30000])
        w['pick_order'] = rng.randrange(3)
    w['tw_descendants'] = rng.randrange(2)
    if rng.random() < 0.3:
        w['p_shortfall'] = rng.choice([8000, 30000])
    if rng.random() < 0.3:
        w['p_stall'] = rng.choice([3000, 15000])
    if preempt:
        # per-access probability in 2^-32 units: ~1 preemption per 2k .. 200k accesses
        w['p_preempt'] = rng.choice([2000, 20000, 200000, 2000000])
        if rng.random() < 0.45:
            # conflict-directed: extra preemption chances at locations that two virtual threads have touched
            w['p_shared'] = rng.choice([160, 1600, 8000, 30000])
        if rng.random() < 0.4:
            # x86-TSO for atomics: relaxed/release atomic stores may wait in the virtual thread's store buffer
            w['p_sb'] = rng.choice([20000, 65535])
        if rng.random() < 0.5:
            # bursts: preemptions biased to land shortly after a task body starts
            w['p_burst'] = rng.choice([3000, 12000, 40000]); w['burst_len'] = rng.choice([16, 200, 3000])
    return w


def thread_count(rng):
    return rng.choice([1, 2, 2, 3, 4, 4, 5, 7, 8, 13, 16, 32, 64])
