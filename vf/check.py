#!/usr/bin/env python3
"""Orchestrator.

  check.py <Cxx> [quick|thorough]     run the check of one property (VERIF_SEED, VERIF_TIER honoured)
  check.py replay <file>              re-execute a replay file in this (fresh) process
  check.py selftest                   build + smoke + determinism sample
  check.py determinism [n]            run a sample of jobs twice in different processes and compare

exit 0: property held on everything explored (KNOWN-FINDING lines allowed)
exit 1: VIOLATION property=<id> replay=<path>
exit 2: harness problem (build failure, nondeterministic replay, ...) - never a VIOLATION line
"""
import copy, fnmatch, hashlib, json, multiprocessing, os, random, shutil, subprocess, sys, time, traceback

HERE = os.path.dirname(os.path.abspath(__file__))
VERIF = os.path.dirname(HERE)
sys.path.insert(0, HERE)
import build, gen, sim  # noqa: E402

DEFAULT_SEED = 20260927
NPROC = int(os.environ.get('VERIF_NPROC', '16'))


def load_modules():
    import importlib
    out = {}
    for prop, name in (('C01', 'props_sched'), ('C02', 'props_sched'), ('C10', 'props_sched'), ('C04', 'props_c04'), ('C05', 'props_c05'),
                       ('C06', 'props_io'), ('C15', 'props_io'), ('C16', 'props_c16')):
        if os.path.exists(os.path.join(HERE, name + '.py')):
            out[prop] = importlib.import_module(name)
    return out


LEVEL = {'C01': 'exploration', 'C02': 'exploration', 'C04': 'exploration', 'C05': 'fault_enumeration', 'C06': 'exploration',
         'C10': 'exploration', 'C15': 'exploration', 'C16': 'exploration'}

BUDGET = {  # seconds of job time (wall), max jobs
    'quick': {'C01': (50, 10 ** 6), 'C02': (70, 10 ** 6), 'C10': (45, 10 ** 6), 'C04': (45, 10 ** 6), 'C05': (60, 10 ** 6), 'C06': (35, 10 ** 6), 'C15': (30, 10 ** 6), 'C16': (55, 10 ** 6)},
    'thorough': {'C01': (1200, 10 ** 7), 'C02': (2400, 10 ** 7), 'C10': (1500, 10 ** 7), 'C04': (1200, 10 ** 7), 'C05': (2400, 10 ** 7),
                 'C06': (1000, 10 ** 7), 'C15': (900, 10 ** 7), 'C16': (1800, 10 ** 7)},
}

# ---------------------------------------------------------------- job execution (runs inside pool processes too)

_WS = None
_BINS = None


def die_with_parent():
    try:
        import ctypes, signal
        ctypes.CDLL('libc.so.6', use_errno=True).prctl(1, signal.SIGKILL)   # PR_SET_PDEATHSIG
    except Exception:
        pass


def _init_pool(bins, rundir):
    global _WS, _BINS
    die_with_parent()
    if os.environ.get('VERIF_DEBUG_FH'):
        import faulthandler, signal
        faulthandler.register(signal.SIGUSR1, file=open('/tmp/fh-%d.txt' % os.getpid(), 'w'), all_threads=True)
    _BINS = bins
    sim.RUN_DIR = rundir
    _WS = sim.WorkerSet(bins, tag='p%d' % os.getpid())


def add_unusual(spec, seed, prop, i):
    """30 % of the jobs run with the cooperative unusual-branch points switched on (KALIGN_VERIF_UNUSUAL in /repo: e.g. all
    rounds of the k-means restart search although an early exit is possible).  The seed is part of the job, not of a
    run: the reference and every schedule take the same side at the same place."""
    r = random.Random(gen.derive_seed(seed, prop + ':unusual', i))
    spec['unusual'] = r.getrandbits(40) | 1 if r.random() < 0.3 else 0
    return spec


def execute(mod, spec, ws):
    pl = mod.plans_of(spec)
    if spec.get('unusual'):
        for item in pl:
            item[2].world['unusual_seed'] = spec['unusual']
    results = {}
    ix0 = None
    for item in pl:
        tag, variant, plan, ix = item[:4]
        fresh = len(item) > 4 and item[4]
        if ix0 is None:
            ix0 = ix
        wall = plan.world.get('wall_limit', 60)
        if fresh:
            w = sim.Worker(ws.bins[variant], 'fresh')
            try:
                results[tag] = w.run(plan, timeout=wall * 13 + 30)
            finally:
                w.stop()
        else:
            results[tag] = ws.run(variant, plan, timeout=wall * 13 + 30)
        if results[tag].crash_class() == 'TIMEOUT' and getattr(mod, 'STOP_JOB_AFTER_TIMEOUT', False):
            break      # one watchdog expiry per job is enough evidence; the rest of its placements would cost 20 s each
        trunc = getattr(mod, 'QUICK_SLOW_JOB', None)
        if trunc and spec.get('_quick') and len(results) >= trunc[1] and max(r.wall for r in results.values()) > trunc[0]:
            break      # quick tier: a scenario whose single runs take this long keeps its first placements only
    s2 = dict(spec); s2['_ix'] = ix0; s2['_plans'] = pl
    V = mod.judge(s2, results)
    return results, V


def job_main(arg):
    prop, tier, seed, i = arg
    mods = load_modules()
    mod = mods[prop]
    rng = random.Random(gen.derive_seed(seed, prop, i))
    t0 = time.time()
    rep = {'i': i, 'ok': True}
    try:
        spec = add_unusual(mod.gen_spec(prop, rng, tier), seed, prop, i)
        if tier == 'quick':
            spec['_quick'] = 1
        results, V = execute(mod, spec, _WS)
        rep['nruns'] = len(results)
        rep['keys'] = mod.nontrivial_keys(spec, results)
        probes = {}
        steps = acc = events = 0
        for r in results.values():
            for k, v in r.probes.items():
                if k.endswith('_max'):
                    probes[k] = max(probes.get(k, 0), v)
                else:
                    probes[k] = probes.get(k, 0) + v
            steps += r.stats.get('steps', 0); acc += r.stats.get('accesses', 0); events += r.evcount or 0
        rep['probes'] = probes; rep['steps'] = steps; rep['accesses'] = acc; rep['events'] = events
        rep['viol'] = V
        if V:
            rep['spec'] = spec
        if i < 4 or (i % 97 == 0):
            rep['sample'] = mod.summary(spec, results)
        extra = getattr(mod, 'job_stats', None)
        if extra:
            rep['extra'] = extra(spec, results)
    except Exception:
        rep['ok'] = False
        rep['error'] = traceback.format_exc()
    rep['wall'] = time.time() - t0
    return rep


# ---------------------------------------------------------------- known findings

def load_known(prop):
    known, fixed = [], []
    p = os.path.join(VERIF, 'known_findings.txt')
    if not os.path.exists(p):
        return known, fixed
    for ln in open(p):
        ln = ln.strip()
        if not ln or ln.startswith('#'):
            continue
        if ln.startswith('known:'):
            f = {}
            head, _, desc = ln[6:].partition('::')
            for tok in head.split():
                if '=' in tok:
                    a, b = tok.split('=', 1); f[a] = b
            f['desc'] = desc.strip()
            if f.get('property') == prop:
                known.append(f)
        elif ln.startswith('fixed:'):
            fixed.append(ln)
    return known, fixed


def match_known(v, known):
    for k in known:
        if fnmatch.fnmatchcase(v['sig'], k.get('sig', '*')) and (not k.get('key') or k['key'].replace('_', ' ') in v['detail'] or k['key'] in v['detail']):
            return k
    return None


# ---------------------------------------------------------------- gate, minimise, replay

def sig_set(V, prop):
    return sorted(set(v['sig'] for v in V if v['prop'] == prop))


def reproduces(mod, spec, ws, sig, prop):
    results, V = execute(mod, spec, ws)
    for v in V:
        if v['prop'] == prop and v['sig'] == sig:
            return True, results, v
    return False, results, None


def minimise(mod, spec, viol, bins, rundir, prop, budget_runs=160, budget_s=90):
    ws = sim.WorkerSet(bins, tag='min')
    sim.RUN_DIR = rundir
    t0 = time.time()
    runs = 0
    cur = spec
    curv = viol
    # freeze schedules into explicit decision lists first
    ok, results, v = reproduces(mod, cur, ws, viol['sig'], prop)
    runs += 1
    if ok and hasattr(mod, 'make_explicit'):
        ex = mod.make_explicit(cur, results)
        ok2, _, v2 = reproduces(mod, ex, ws, viol['sig'], prop)
        runs += 1
        if ok2:
            cur, curv = ex, v2
    improved = True
    while improved and runs < budget_runs and time.time() - t0 < budget_s:
        improved = False
        for cand in mod.shrinks(cur, curv):
            if runs >= budget_runs or time.time() - t0 > budget_s:
                break
            runs += 1
            try:
                ok, _, v = reproduces(mod, cand, ws, viol['sig'], prop)
            except Exception:
                ok = False
            if ok:
                cur, curv = cand, v
                improved = True
                break
    ws.close()
    return cur, curv, runs


def spec_to_json(spec):
    return json.loads(json.dumps(spec, default=lambda o: o.decode('latin-1') if isinstance(o, bytes) else str(o)))


def write_replay(prop, seed, index, spec, viol, tier):
    os.makedirs(os.path.join(VERIF, 'replays'), exist_ok=True)
    h = hashlib.sha256(json.dumps(spec_to_json(spec), sort_keys=True).encode()).hexdigest()[:10]
    path = os.path.join(VERIF, 'replays', '%s-%s-%s.json' % (prop, viol['sig'].replace(':', '_').replace('/', '_')[:60], h))
    doc = {'property': prop, 'seed': seed, 'job_index': index, 'tier': tier, 'expected': {'sig': viol['sig'], 'cls': viol['cls'], 'detail': viol['detail']},
           'how_to_replay': 'python3 vf/check.py replay ' + path, 'spec': spec_to_json(spec)}
    with open(path, 'w') as f:
        json.dump(doc, f, indent=1)
    return path


def cmd_replay(path, verbose=True):
    doc = json.load(open(path))
    prop = doc['property']
    mods = load_modules()
    mod = mods[prop]
    bins = build_variants(mod.variants(prop, 'thorough'))
    rundir = make_rundir('replay')
    sim.RUN_DIR = rundir
    ws = sim.WorkerSet(bins, tag='replay')
    spec = doc['spec']
    if hasattr(mod, 'spec_from_json'):
        spec = mod.spec_from_json(spec)
    hashes = []
    found = None
    for attempt in range(2):
        ws.fresh()
        results, V = execute(mod, spec, ws)
        hashes.append(sorted((t, r.evhash, r.crash_class()) for t, r in results.items()))
        mine = [v for v in V if v['prop'] == prop and v['sig'] == doc['expected']['sig']]
        if attempt == 0:
            found = mine[0] if mine else None
            others = [v for v in V if v['prop'] == prop and v['sig'] != doc['expected']['sig']]
    ws.close()
    shutil.rmtree(rundir, ignore_errors=True)
    if hashes[0] != hashes[1]:
        print('HARNESS-NONDETERMINISM: two executions of the replay file differ')
        return 2
    if found:
        if verbose:
            print('replayed: %s %s' % (found['sig'], found['detail']))
        print('VIOLATION property=%s replay=%s' % (prop, path))
        return 1
    print('replay did not reproduce %s (property holds on this tree for this replay%s)' % (doc['expected']['sig'], '; other violations: %s' % [v['sig'] for v in others] if others else ''))
    return 1 if others else 0


# ---------------------------------------------------------------- builds, run dirs

def build_variants(vs):
    bins = {}
    vs = sorted(vs, key=lambda v: (v == 'preempt', v))     # preempt last: it may fall back to plain
    for v in vs:
        if v == 'valgrind':
            continue
        try:
            bins[v] = build.build(v)
        except build.BuildError as e:
            if v == 'preempt' and 'plain' in vs:
                # e.g. a change that uses C11 atomics: the instrumentation callbacks for them are not provided.
                # The access-level preemption variant is then unavailable; its runs fall back to the plain build.
                sys.stdout.write('note: preempt variant does not build on this tree (%s); falling back to plain\n' % e.log.strip().splitlines()[-1][:200])
                fallback = True
                continue
            sys.stdout.write('BUILD-FAILED variant=%s\n%s\n' % (v, e.log[-4000:]))
            sys.exit(2)
    if 'preempt' in vs and 'preempt' not in bins and 'plain' in bins:
        bins['preempt'] = bins['plain']
    if 'valgrind' in vs:
        # the plain binary under memcheck; junk fill is switched off by the plans that use it so that
        # memcheck's own definedness tracking is the oracle for uninitialised-value use
        bins['valgrind'] = ['valgrind', '-q', '--error-exitcode=99', '--exit-on-first-error=yes', '--leak-check=no',
                            '--track-origins=no', '--max-stackframe=1100000000', '--main-stacksize=67108864', bins['plain']]
    return bins


def make_rundir(tag):
    d = os.path.join(VERIF, 'run', '%s-%d' % (tag, os.getpid()))
    os.makedirs(d, exist_ok=True)
    # stale dirs of dead runs
    try:
        for x in os.listdir(os.path.join(VERIF, 'run')):
            p = os.path.join(VERIF, 'run', x)
            if p != d and time.time() - os.path.getmtime(p) > 6 * 3600:
                shutil.rmtree(p, ignore_errors=True)
    except OSError:
        pass
    return d


# ---------------------------------------------------------------- main check

def cmd_check(prop, tier):
    seed = int(os.environ.get('VERIF_SEED', DEFAULT_SEED))
    t_start = time.time()
    mods = load_modules()
    if prop not in mods:
        print('property %s is not claimed (see MANIFEST.json not_applicable)' % prop)
        return 2
    mod = mods[prop]
    print('VERIF_SEED=%d property=%s tier=%s' % (seed, prop, tier))
    variants = mod.variants(prop, tier)
    bins = build_variants(variants)
    t_built = time.time()
    rundir = make_rundir(prop)
    det = None
    if tier == 'thorough' or os.environ.get('VERIF_DETERMINISM'):
        # determinism proof for this property before the search: a sample of jobs is executed twice, in
        # pools of 3 and 11 processes; every result (event-log hash, trace, outputs, probes) must agree
        rc = cmd_determinism(24, [prop])
        det = {'jobs': 24, 'executions_each': 2, 'pool_sizes': [3, 11], 'mismatches': 0 if rc == 0 else 'yes'}
        if rc != 0:
            print('HARNESS-NONDETERMINISM: determinism sample failed')
            return 2
    budget_s, max_jobs = BUDGET[tier][prop]
    if os.environ.get('VERIF_BUDGET_S'):
        budget_s = float(os.environ['VERIF_BUDGET_S'])
    deadline = [time.time() + budget_s]

    import threading
    inflight = threading.Semaphore(NPROC * 3)     # back-pressure: the pool's feeder thread would otherwise drain the generator at once

    def indices():
        i = 0
        while i < max_jobs:
            inflight.acquire()
            if time.time() >= deadline[0]:
                return
            yield (prop, tier, seed, i)
            i += 1

    known_early, _ = load_known(prop)
    ctx = multiprocessing.get_context('fork')
    pool = ctx.Pool(NPROC, initializer=_init_pool, initargs=(bins, rundir))
    agg = {'jobs': 0, 'runs': 0, 'keys': set(), 'probes': {}, 'steps': 0, 'accesses': 0, 'events': 0, 'samples': [], 'errors': [], 'extra': {}}
    violations = []
    job_wall = 0.0
    try:
        it = pool.imap_unordered(job_main, indices(), chunksize=1)
        grace = 240 if tier == 'quick' else 600
        while True:
            try:
                # jobs still running long after the budget ended are abandoned (counted), never waited for forever
                rep = it.next(timeout=max(5.0, deadline[0] + grace - time.time()))
            except StopIteration:
                break
            except multiprocessing.TimeoutError:
                agg['abandoned_jobs'] = agg.get('abandoned_jobs', 0) + 1
                print('note: jobs still running %d s after the end of the budget were abandoned' % grace)
                break
            inflight.release()
            if not rep['ok']:
                agg['errors'].append(rep['error'])
                if len(agg['errors']) > 200:
                    break
                continue
            agg['jobs'] += 1
            agg['runs'] += rep['nruns']
            agg['evals'] = agg.get('evals', 0) + (rep.get('extra') or {}).get('evaluations', rep['nruns'])
            agg['keys'].update(rep['keys'])
            for k, v in rep['probes'].items():
                if k.endswith('_max'):
                    agg['probes'][k] = max(agg['probes'].get(k, 0), v)
                else:
                    agg['probes'][k] = agg['probes'].get(k, 0) + v
            agg['steps'] += rep['steps']; agg['accesses'] += rep['accesses']; agg['events'] += rep['events']
            job_wall += rep['wall']
            if rep['wall'] > agg.get('slowest', (0, -1))[0]:
                agg['slowest'] = (round(rep['wall'], 1), rep['i'])
            for k, v in (rep.get('extra') or {}).items():
                if isinstance(v, dict):
                    d = agg['extra'].setdefault(k, {})
                    for a, b in v.items():
                        d[a] = d.get(a, 0) + b
                else:
                    agg['extra'][k] = agg['extra'].get(k, 0) + v
            if 'sample' in rep and len(agg['samples']) < 6:
                agg['samples'].append(rep['sample'])
            for v in rep['viol']:
                v = dict(v); v['job'] = rep['i']; v['spec'] = rep.get('spec')
                violations.append(v)
            if rep['viol']:
                fresh_now = [v for v in violations if v['prop'] == prop and match_known(v, known_early) is None]
                nmine = len(fresh_now)
                nhang = sum(1 for v in fresh_now if 'HANG' in v['sig'] or 'TIMEOUT' in v['sig'])
                if (nmine >= 60 or nhang >= 3) and time.time() < deadline[0]:
                    # plenty of candidates (or runs that eat the watchdog): stop generating, go and confirm them
                    deadline[0] = time.time()
    finally:
        pool.terminate(); pool.join()
    t_jobs = time.time()
    if agg['errors'] and (len(agg['errors']) > 0.02 * max(1, agg['jobs']) or not violations):
        print('HARNESS-ERROR in job code (%d jobs):\n%s' % (len(agg['errors']), agg['errors'][0]))
        shutil.rmtree(rundir, ignore_errors=True)
        return 2
    if agg['errors']:
        print('note: %d job(s) raised in harness code and were skipped: %s' % (len(agg['errors']), agg['errors'][0].strip().splitlines()[-1]))

    known, fixed = load_known(prop)
    mine = [v for v in violations if v['prop'] == prop]
    harness = [v for v in violations if v['prop'] == 'H']
    cross = {}
    for v in violations:
        if v['prop'] not in (prop, 'H'):
            cross[v['sig']] = cross.get(v['sig'], 0) + 1
    known_hits = {}
    fresh = {}
    for v in mine:
        k = match_known(v, known)
        if k is not None:
            known_hits[k['desc']] = known_hits.get(k['desc'], 0) + 1
        else:
            fresh.setdefault(v['sig'], []).append(v)

    exit_code = 0
    reported = []
    unconfirmed = []
    if os.environ.get('VERIF_LIST_ONLY'):
        for sig in sorted(fresh):
            print('SIG %s x%d e.g. job %d: %s' % (sig, len(fresh[sig]), fresh[sig][0]['job'], fresh[sig][0]['detail'][:500]))
        for sig, n in sorted(cross.items()):
            print('CROSS %s x%d' % (sig, n))
        shutil.rmtree(rundir, ignore_errors=True)
        return 0
    if harness:
        print('HARNESS: %d runs used an unsupported construct: %s' % (len(harness), harness[0]['detail'][:200]))
    only = os.environ.get('VERIF_ONLY_SIG')
    for sig in [x for x in sorted(fresh) if not only or fnmatch.fnmatchcase(x, only)][:4]:
        vs = sorted(fresh[sig], key=lambda v: (len(json.dumps(spec_to_json(v['spec']))), v['job']))
        print('candidate violation %s (seen in %d jobs), first: job %d: %s' % (sig, len(vs), vs[0]['job'], vs[0]['detail'][:300]))
        # gate: a candidate must reproduce twice in fresh processes (a result that depended on what the
        # pooled worker had executed before - e.g. through stale stack contents - is not reported)
        sim.RUN_DIR = rundir
        v = None
        tried = []
        for cand in vs[:6]:
            okc = 0
            for _ in range(2):
                ws = sim.WorkerSet(bins, tag='gate')
                try:
                    ok, _, vv = reproduces(mod, cand['spec'], ws, sig, prop)
                finally:
                    ws.close()
                okc += 1 if ok else 0
            tried.append((cand['job'], okc))
            if okc == 2:
                v = cand
                break
        if v is None and hasattr(mod, 'harden'):
            # erratic behaviour (typically silent memory corruption): repeat the candidates on the ASan build, where
            # the first bad access is reported deterministically; any violation of THIS property found there is used
            try:
                if 'asan' not in bins:
                    bins.update(build_variants(['asan']))
                for cand in vs[:4]:
                    hs = mod.harden(cand['spec'])
                    seen = []
                    for _ in range(2):
                        ws = sim.WorkerSet(bins, tag='gate')
                        try:
                            _, VV = execute(mod, hs, ws)
                        finally:
                            ws.close()
                        seen.append(sorted(set(x['sig'] for x in VV if x['prop'] == prop)))
                    if seen[0] and seen[0] == seen[1]:
                        sig2 = seen[0][0]
                        _, VV = execute(mod, hs, sim.WorkerSet(bins, tag='gate'))
                        v = dict([x for x in VV if x['prop'] == prop and x['sig'] == sig2][0]); v['job'] = cand['job']; v['spec'] = hs
                        print('  candidate %s is erratic on the plain build; on the ASan build it is deterministic as %s' % (sig, sig2))
                        sig = sig2
                        break
            except SystemExit:
                pass
        if v is None:
            print('UNCONFIRMED candidate %s did not reproduce twice in fresh processes (job, times reproduced): %s' % (sig, tried))
            unconfirmed.append(sig)
            continue
        small, sv, nruns = minimise(mod, v['spec'], v, bins, rundir, prop, budget_runs=160 if not reported else 40,
                                    budget_s=(60 if tier == 'quick' else 240) if not reported else 15)
        # the minimised case may now match a known finding exactly
        k = match_known(sv, known)
        if k is not None:
            known_hits[k['desc']] = known_hits.get(k['desc'], 0) + 1
            continue
        path = write_replay(prop, seed, v['job'], small, sv, tier)
        r = subprocess.run([sys.executable, os.path.join(HERE, 'check.py'), 'replay', path], stdout=subprocess.PIPE, stderr=subprocess.STDOUT, text=True)
        if r.returncode != 1 or 'VIOLATION property=%s' % prop not in r.stdout:
            # fall back to the unminimised, gated case
            os.unlink(path)
            path = write_replay(prop, seed, v['job'], v['spec'], v, tier)
            sv = v
            r = subprocess.run([sys.executable, os.path.join(HERE, 'check.py'), 'replay', path], stdout=subprocess.PIPE, stderr=subprocess.STDOUT, text=True)
            if r.returncode != 1 or 'VIOLATION property=%s' % prop not in r.stdout:
                print('UNCONFIRMED replay %s did not reproduce in a fresh process:\n%s' % (path, r.stdout[-800:]))
                os.unlink(path)
                unconfirmed.append(sig)
                continue
        print('  minimised in %d re-executions: %s' % (nruns, sv['detail'][:400]))
        print('VIOLATION property=%s replay=%s' % (prop, path))
        reported.append({'sig': sig, 'detail': sv['detail'], 'replay': path, 'jobs': len(vs)})
        if exit_code == 0:
            exit_code = 1
    # the wall-clock watchdog is the only input of a verdict that the seed does not decide: an unconfirmed
    # timeout under machine load is neither a finding nor a harness defect
    soft = [u for u in unconfirmed if 'HANG' in u or 'TIMEOUT' in u]
    if soft:
        print('note: wall-clock timeouts that did not reproduce in fresh processes were dropped: %s' % soft)
    unconfirmed = [u for u in unconfirmed if u not in soft]
    if unconfirmed and not reported:
        # nothing confirmed, something seen that does not replay.  Either the harness is nondeterministic (exit 2)
        # or the code under test behaves erratically (undefined behaviour that depends on what the worker
        # process had executed before).  The determinism sample tells the two apart.
        print('%d candidate signature(s) seen but none reproduced in fresh processes (not even on the ASan build): %s' % (len(unconfirmed), unconfirmed))
        rc = cmd_determinism(16, [prop])
        if rc != 0:
            print('HARNESS-NONDETERMINISM: the determinism sample fails as well')
            exit_code = 2
        else:
            print('note: the harness itself is deterministic on this tree (16 jobs x 2 pools agree); the candidates are erratic behaviour of the code under test that could not be turned into a replayable case - no violation is claimed')
    for k in known:
        print('KNOWN-FINDING: property=%s %s (matched %d times in this run)' % (prop, k['desc'], known_hits.get(k['desc'], 0)))

    wall = time.time() - t_start
    ev = {
        'property_id': prop, 'tier': tier, 'seed': seed, 'level': LEVEL[prop],
        'coverage': {
            'evaluations': agg.get('evals', agg['runs']),
            'simulated_runs': agg['runs'],
            'distinct_nontrivial': len(agg['keys']),
            'rule': getattr(mod, 'RULE', {}).get(prop, '') if isinstance(getattr(mod, 'RULE', None), dict) else getattr(mod, 'RULE', ''),
            'samples': agg['samples'][:4] or [{'note': 'no job finished'}],
            'jobs': agg['jobs'],
            'simulated_runs_per_hour': int(agg['runs'] / max(1e-9, t_jobs - t_built) * 3600),
            'seeds_per_hour': int(agg['jobs'] / max(1e-9, t_jobs - t_built) * 3600),
            'scheduler_steps': agg['steps'], 'instrumented_accesses': agg['accesses'], 'hook_events': agg['events'],
            'probes_and_fault_counts_fired': dict(sorted(agg['probes'].items())),
            'extra': agg['extra'],
            'builds': {k: os.path.basename(os.path.dirname(v if isinstance(v, str) else v[-1])) + ('' if isinstance(v, str) else ' under valgrind memcheck') for k, v in bins.items()},
            'real_vs_stub': {'kalign lib/src + src (readers, writers, guide tree, DP kernels, CLI)': 'real, compiled from /repo working tree',
                             'glibc stdio/qsort/getopt': 'real', 'OpenMP runtime': 'stub (simomp, seeded fibers)' if 'plain' in bins or 'preempt' in bins or 'asan' in bins else 'not linked (sequential elision)',
                             'file system/stdin/stdout/tty/exit': 'stub (simfs over fopencookie)', 'clock': 'stub (simclock)',
                             'heap': 'real allocator behind junk-fill/accounting layer (simalloc)', 'hardware memory model': 'not modelled (sequential consistency)'},
            'simulated_time': 'kalign has no timers; reported instead: scheduler_steps, instrumented_accesses, and the simulated wall clock only moves when read',
            'cross_observations_not_gating_here': cross,
            'known_findings_matched': known_hits,
            'determinism_sample': det or 'run by setup_cmd (check.py determinism) and by every thorough run',
        },
        'assumptions': getattr(mod, 'ASSUMPTIONS', []),
        'wall_s': round(wall, 2),
        'violations': len(reported),
    }
    if reported:
        ev['coverage']['violations_reported'] = reported
    # evidence describes /repo itself: a run against another source tree (KALIGN_SRC=, used to try seeded changes
    # in a scratch worktree) leaves its record under run/ instead
    evdir = os.path.join(VERIF, 'evidence') if os.path.realpath(build.REPO) == '/repo' else os.path.join(VERIF, 'run', 'evidence-other-tree')
    os.makedirs(evdir, exist_ok=True)
    with open(os.path.join(evdir, prop + '.json'), 'w') as f:
        json.dump(ev, f, indent=1, sort_keys=False)
    print('slowest job: %s' % (agg.get('slowest'),))
    print('%s %s: %d jobs, %d simulated runs, %d distinct non-trivial, %d violations reported, known findings matched: %d, build %.1fs, jobs %.1fs, total %.1fs'
          % (prop, tier, agg['jobs'], agg['runs'], len(agg['keys']), len(reported), sum(known_hits.values()), t_built - t_start, t_jobs - t_built, wall))
    shutil.rmtree(rundir, ignore_errors=True)
    return exit_code


def cmd_determinism(n=40, props=None):
    """run job samples twice, in different processes and worker counts; every result hash must agree"""
    mods = load_modules()
    seed = int(os.environ.get('VERIF_SEED', DEFAULT_SEED))
    bad = 0
    total = 0
    for prop in (props or sorted(mods)):
        mod = mods[prop]
        bins = build_variants(mod.variants(prop, 'quick'))
        rundir = make_rundir('det')
        out = []
        for nproc in (3, 11):
            ctx = multiprocessing.get_context('fork')
            pool = ctx.Pool(nproc, initializer=_init_pool, initargs=(bins, rundir))
            try:
                reps = pool.map(det_job, [(prop, seed, i) for i in range(n)], chunksize=1)
            finally:
                pool.terminate(); pool.join()
            out.append(reps)
        for a, b in zip(out[0], out[1]):
            total += 1
            if a != b:
                bad += 1
                print('NONDETERMINISTIC %s job %s:\n  %s\n  %s' % (prop, a[0], a[1][:300], b[1][:300]))
        shutil.rmtree(rundir, ignore_errors=True)
    print('determinism: %d jobs x 2 executions (3 and 11 processes), %d mismatches' % (total, bad))
    return 0 if bad == 0 else 2


def cmd_omptest(n=60):
    """self-test of the simulated OpenMP runtime (sim/omptest.c): constructs with exact integer results under seeded
    schedules (deferral, stealing, stalls, access-level preemption) on every OpenMP build variant"""
    import plans
    seed = int(os.environ.get('VERIF_SEED', DEFAULT_SEED))
    bins = build_variants(['plain', 'asan', 'preempt'])
    sim.RUN_DIR = make_rundir('omptest')
    ws = sim.WorkerSet(bins, tag='omptest')
    bad = runs = 0
    try:
        for i in range(n):
            rng = random.Random(gen.derive_seed(seed, 'omptest', i))
            variant = ('plain', 'asan', 'preempt')[i % 3]
            w = gen.gen_world(rng, preempt=(variant == 'preempt'))
            p = plans.base_plan('omptest%d' % i, w, trace=False)
            p.stdin = ('tty', b'')
            ix = [p.op_simple('T', rng.choice([1, 2, 3, 4, 5, 8, 9, 16]), rng.choice([0, 1, 2, 6, 7, 8, 20, 21, 64, 100, 199, 1000])) for _ in range(4)]
            r = ws.run(variant, p, timeout=120)
            runs += 1
            ok = not r.crashed() and all(r.op(k) is not None and r.op(k).rc == 0 for k in ix) and not r.viol
            if not ok:
                bad += 1
                print('OMP-SELFTEST-FAILED plan %d (%s): %s %s %s' % (i, variant, r.crash_class(), [(r.op(k).f if r.op(k) else None) for k in ix], r.viol[:2]))
        # thread-local storage per virtual thread (plain and preempt builds; the ASan build does not model it)
        for i in range(30):
            rng = random.Random(gen.derive_seed(seed, 'tls', i))
            variant = ('plain', 'preempt')[i % 2]
            w = gen.gen_world(rng, preempt=(variant == 'preempt'))
            w['thread_limit'] = 64; w.pop('p_shortfall', None)       # the test needs the same team size twice
            p = plans.base_plan('tls%d' % i, w, trace=False)
            p.stdin = ('tty', b'')
            ix = [p.op_simple('T3', rng.choice([2, 3, 4, 8])) for _ in range(3)]
            r = ws.run(variant, p, timeout=120)
            runs += 1
            if r.crashed() or any(r.op(k) is None or r.op(k).rc != 0 for k in ix):
                bad += 1
                print('OMP-SELFTEST-FAILED threadprivate plan %d (%s): %s %s' % (i, variant, r.crash_class(), [(r.op(k).f if r.op(k) else None) for k in ix]))
        # store-buffer model for atomics (preempt build): the Dekker litmus test must never read 0/0 under sequential
        # consistency and must do so at least once when relaxed stores may sit in a store buffer
        seen = {0: 0, 1: 0}
        for mode in (0, 1):
            for i in range(40):
                rng = random.Random(gen.derive_seed(seed, 'litmus%d' % mode, i))
                w = gen.gen_world(rng, preempt=True)
                w['p_sb'] = 65535 if mode else 0
                p = plans.base_plan('litmus%d_%d' % (mode, i), w, trace=False)
                p.stdin = ('tty', b'')
                ix = [p.op_simple('T2', rng.choice([2, 3, 4, 8])) for _ in range(6)]
                r = ws.run('preempt', p, timeout=120)
                if r.crashed():
                    bad += 1
                    print('OMP-SELFTEST-FAILED litmus plan %d: %s' % (i, r.crash_class()))
                    continue
                seen[mode] += sum(1 for k in ix if r.op(k) is not None and r.op(k).rc == 1)
        if seen[0] != 0 or seen[1] == 0:
            bad += 1
            print('OMP-SELFTEST-FAILED store-buffer litmus: 0/0 outcomes under SC: %d (must be 0), with store buffers: %d (must be > 0)' % (seen[0], seen[1]))
        else:
            print('omptest: store-buffer litmus: 0/0 read %d times with store buffers on, never under SC' % seen[1])
    finally:
        ws.close()
        shutil.rmtree(sim.RUN_DIR, ignore_errors=True)
    print('omptest: %d plans x 4 self-test calls on plain/asan/preempt, %d failed' % (runs, bad))
    return 0 if bad == 0 else 2


def det_job(arg):
    prop, seed, i = arg
    mods = load_modules()
    mod = mods[prop]
    rng = random.Random(gen.derive_seed(seed, prop, i))
    spec = add_unusual(mod.gen_spec(prop, rng, 'quick'), seed, prop, i)
    results, V = execute(mod, spec, _WS)
    h = hashlib.sha256()
    for t in sorted(results):
        r = results[t]
        import plans
        h.update(repr((t, r.evhash, r.evcount, r.trace, r.pre, r.crash_class(), plans.fingerprint(r), sorted(r.probes.items()))).encode())
    return (i, h.hexdigest() + ' ' + repr(sorted(v['sig'] for v in V)))


def main():
    import faulthandler, signal
    faulthandler.register(signal.SIGUSR1, all_threads=True)
    a = sys.argv[1:]
    if not a:
        print(__doc__); return 2
    if a[0] == 'replay':
        return cmd_replay(a[1])
    if a[0] == 'determinism':
        return cmd_determinism(int(a[1]) if len(a) > 1 else 40, a[2:] or None)
    if a[0] == 'omptest':
        return cmd_omptest(int(a[1]) if len(a) > 1 else 60)
    if a[0] == 'selftest':
        build_variants(['plain', 'asan', 'preempt', 'serial'])
        return cmd_determinism(6)
    tier = a[1] if len(a) > 1 else os.environ.get('VERIF_TIER', 'quick')
    return cmd_check(a[0], tier)


if __name__ == '__main__':
    sys.exit(main())
