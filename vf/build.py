#!/usr/bin/env python3
"""Build simrun variants from the CURRENT working tree of the kalign repository.

The object directory is keyed by a hash over the contents of every kalign source/header that is
compiled, the simulator sources and the flags, so an edited /repo is always rebuilt and an
unchanged one is reused.  Nothing is kept under /tmp.
"""
import hashlib, os, re, shutil, subprocess, sys, time
from concurrent.futures import ThreadPoolExecutor

VERIF = os.path.dirname(os.path.dirname(os.path.abspath(__file__)))
SIM = os.path.join(VERIF, 'sim')
BUILD_ROOT = os.path.join(VERIF, 'build')
REPO = os.environ.get('KALIGN_SRC', '/repo')

FALLBACK_LIB = """test tldevel tlmisc tlrng esl_stopwatch msa_alloc msa_op msa_io msa_misc msa_check msa_cmp
msa_sort alphabet task bisectingKmeans sequence_distance bpm euclidean_dist pick_anchor aln_wrap aln_param
aln_run aln_mem aln_setup aln_controller aln_seqseq aln_seqprofile aln_profileprofile weave_alignment""".split()

WRAPS = ['fopen', 'stat', 'isatty', 'exit', 'time', 'clock', 'times', 'fileno', 'open', 'read', 'write', 'lseek', 'close', 'fstat', 'access',
         'unlink', 'remove', 'rename', 'lstat', 'mmap', 'pread', 'fdopen',
         'malloc', 'calloc', 'realloc', 'free', 'posix_memalign', 'aligned_alloc']

SIM_SRC = ['driver.c', 'simomp.c', 'simfs.c', 'simclock.c', 'simalloc.c', 'hooks.c']

VARIANTS = {
    # name: (kalign cflags, sim cflags, link flags, extra sim sources)
    'plain':   (['-O2', '-g1', '-fopenmp', '-DHAVE_OPENMP', '-DKALIGN_VERIF'], ['-O2', '-g1', '-DKALIGN_VERIF'], [], []),
    'asan':    (['-O1', '-g1', '-fopenmp', '-DHAVE_OPENMP', '-DKALIGN_VERIF', '-fsanitize=address,undefined',
                 '-fno-sanitize-recover=undefined', '-fno-omit-frame-pointer'],
                # simulator sources are NOT instrumented: frames of a fiber that ends (it never unwinds) would leave
                # poisoned redzones on pooled stacks; the fiber-switch annotations are still compiled in
                ['-O1', '-g1', '-DKALIGN_VERIF', '-DSIM_ASAN_BUILD', '-fno-omit-frame-pointer'],
                ['-fsanitize=address,undefined'], []),
    'preempt': (['-O2', '-g1', '-fopenmp', '-DHAVE_OPENMP', '-DKALIGN_VERIF', '-fsanitize=thread'],
                ['-O2', '-g1', '-DKALIGN_VERIF'], [], ['tsanhooks.c']),
    'serial':  (['-O2', '-g1', '-DKALIGN_VERIF'], ['-O2', '-g1', '-DKALIGN_VERIF'], [], []),
}


def have_avx2():
    try:
        return 'avx2' in open('/proc/cpuinfo').read()
    except OSError:
        return False


def lib_sources(repo):
    """source list as lib/CMakeLists.txt declares it (so a change that adds a file is followed)"""
    try:
        txt = open(os.path.join(repo, 'lib', 'CMakeLists.txt')).read()
        m = re.search(r'set\(source_files(.*?)\)', txt, re.S)
        names = []
        for line in m.group(1).splitlines():
            line = line.split('#')[0].strip()
            if line.startswith('src/') and line.endswith('.c'):
                names.append(line[4:-2])
        if names and all(os.path.exists(os.path.join(repo, 'lib', 'src', n + '.c')) for n in names):
            return names
    except Exception:
        pass
    return FALLBACK_LIB


def tree_hash(repo, variant, flags):
    h = hashlib.sha256()
    h.update(repr((variant, flags)).encode())
    roots = [os.path.join(repo, 'lib', 'src'), os.path.join(repo, 'lib', 'include'), os.path.join(repo, 'src'), SIM]
    for root in roots:
        for dp, dn, fn in sorted(os.walk(root)):
            dn.sort()
            for f in sorted(fn):
                if f.endswith(('.c', '.h', '.in', '.txt')):
                    p = os.path.join(dp, f)
                    h.update(p.encode())
                    with open(p, 'rb') as fh:
                        h.update(fh.read())
    h.update(open(os.path.join(repo, 'lib', 'CMakeLists.txt'), 'rb').read())
    return h.hexdigest()[:16]


def run(cmd, log):
    r = subprocess.run(cmd, stdout=subprocess.PIPE, stderr=subprocess.STDOUT, text=True)
    if r.returncode != 0:
        log.append('$ ' + ' '.join(cmd) + '\n' + r.stdout)
    return r.returncode


def build(variant, repo=None, quiet=True):
    """returns path of the simrun binary for this variant, building if necessary"""
    repo = repo or REPO
    kflags, sflags, lflags, extra = VARIANTS[variant]
    arch = ['-mavx2', '-DHAVE_AVX2'] if have_avx2() else ['-DNOHAVE_AVX2']
    common = ['-std=gnu11', '-fPIC', '-DKALIGN_PACKAGE_VERSION="3.4.1"', '-DKALIGN_PACKAGE_NAME="kalign"',
              '-I' + os.path.join(repo, 'lib', 'src'), '-I' + os.path.join(repo, 'lib', 'include')] + arch
    tag = tree_hash(repo, variant, (kflags, sflags, lflags, arch))
    out = os.path.join(BUILD_ROOT, '%s-%s' % (variant, tag))
    binp = os.path.join(out, 'simrun')
    if os.path.exists(binp):
        os.utime(out, None)
        return binp
    tmp = out + '.tmp%d' % os.getpid()
    shutil.rmtree(tmp, ignore_errors=True)
    os.makedirs(tmp)
    open(os.path.join(tmp, 'version.h'), 'w').write('#define KALIGN_PACKAGE_VERSION "3.4.1"\n#define KALIGN_PACKAGE_NAME "kalign"\n')
    jobs = []
    for n in lib_sources(repo):
        jobs.append((os.path.join(repo, 'lib', 'src', n + '.c'), os.path.join(tmp, 'k_' + n + '.o'), kflags + ['-w']))
    jobs.append((os.path.join(repo, 'src', 'run_kalign.c'), os.path.join(tmp, 'k_run_kalign.o'), kflags + ['-w', '-Dmain=kalign_cli_main']))
    jobs.append((os.path.join(repo, 'src', 'parameters.c'), os.path.join(tmp, 'k_parameters.o'), kflags + ['-w']))
    for s in SIM_SRC + extra:
        jobs.append((os.path.join(SIM, s), os.path.join(tmp, 's_' + s[:-2] + '.o'), sflags + ['-Wall', '-Wextra', '-Wno-unused-parameter', '-I' + SIM]))
    # the runtime self-test is compiled like kalign code (same -fopenmp / sanitizer flags): the compiler emits the libgomp calls
    jobs.append((os.path.join(SIM, 'omptest.c'), os.path.join(tmp, 's_omptest.o'), kflags + ['-Wall']))
    log = []
    def cc(j):
        src, obj, fl = j
        return run(['gcc'] + common + ['-I' + tmp] + fl + ['-c', src, '-o', obj], log)
    with ThreadPoolExecutor(max_workers=16) as ex:
        rcs = list(ex.map(cc, jobs))
    if any(rcs):
        shutil.rmtree(tmp, ignore_errors=True)
        raise BuildError(variant, ''.join(log))
    wrap = ['-Wl,' + ','.join('--wrap=' + w for w in WRAPS)]
    objs = [j[1] for j in jobs]
    rc = run(['gcc'] + lflags + objs + wrap + ['-lm', '-o', os.path.join(tmp, 'simrun')], log)
    if rc:
        shutil.rmtree(tmp, ignore_errors=True)
        raise BuildError(variant, ''.join(log))
    for o in objs:
        os.unlink(o)
    try:
        os.rename(tmp, out)
    except OSError:
        shutil.rmtree(tmp, ignore_errors=True)   # someone else built it meanwhile
    prune(variant, keep=3)
    return binp


class BuildError(Exception):
    def __init__(self, variant, log):
        super().__init__('build of variant %s failed' % variant)
        self.variant, self.log = variant, log


def prune(variant, keep=3):
    try:
        ds = [d for d in os.listdir(BUILD_ROOT) if d.startswith(variant + '-') and '.tmp' not in d]
        ds.sort(key=lambda d: os.path.getmtime(os.path.join(BUILD_ROOT, d)), reverse=True)
        for d in ds[keep:]:
            shutil.rmtree(os.path.join(BUILD_ROOT, d), ignore_errors=True)
        for d in os.listdir(BUILD_ROOT):
            p = os.path.join(BUILD_ROOT, d)
            if '.tmp' in d and time.time() - os.path.getmtime(p) > 600:
                shutil.rmtree(p, ignore_errors=True)
    except OSError:
        pass


if __name__ == '__main__':
    vs = sys.argv[1:] or list(VARIANTS)
    for v in vs:
        t = time.time()
        try:
            print(v, build(v), '%.1fs' % (time.time() - t))
        except BuildError as e:
            print(e.log)
            sys.exit(2)
