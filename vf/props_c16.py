"""C16: a library call's result does not depend on the calls made before it.

Job = a seeded history of API calls over up to 4 msa slots (kalign(), kalign_read_input with 1-3 files,
kalign_run with admissible and inadmissible types, kalign_write_msa, kalign_msa_compare, kalign_free_msa,
reformat_settings_msa, kalign_check_msa,
the CLI main), executed in ONE simulated process under a random schedule and heap garbage.  For every
result-bearing call its *data slice* (the calls that built the objects and files it uses) is executed alone
in a FRESH process of the same build with the default schedule and other heap garbage: the results must
be equal.  After everything is freed the allocator's live set of kalign allocations must be empty."""
import copy
import gen, plans, oracles
from sim import Plan

RULE = 'each job = one generated history of 3-25 API calls over <= 4 msa slots and 2-3 record sets (call kinds A,R,X,W,C,F,CLI and reformat_settings_msa, kalign_check_msa; thread counts, types incl. inadmissible ones, penalties and formats vary per call) + one fresh-process execution of the data slice of every result-bearing call; distinct_nontrivial = distinct (history hash) with at least two result-bearing calls and at least one earlier call that is NOT in the slice of a later one (so there is a history to be independent of)'
ASSUMPTIONS = ['a caller that checks return codes only frees an object after a call on it failed (slot guard)',
               'the reference for a call is its data slice in a fresh process of the same build variant with the all-defaults schedule',
               'simomp\'s own memory is outside the allocation accounting (the property excludes the OpenMP runtime\'s pool)']

NSLOT = 4


def variants(prop, tier):
    return ['plain', 'asan']


def gen_spec(prop, rng, tier):
    nsets = rng.choice([2, 2, 3])
    sets = []
    for k in range(nsets):
        wl = gen.gen_workload(rng, weights=[25, 55, 12, 2, 1, 3, 2])
        if rng.random() < 0.2:
            # zero-length sequences, sometimes the majority of the set ("varying inputs"; the library drops them)
            n0 = len(wl['seqs'])
            for _ in range(rng.randint(1, max(1, n0 + 2))):
                pos = rng.randrange(len(wl['seqs']) + 1)
                wl['seqs'].insert(pos, ''); wl['names'].insert(pos, 'e')
            wl['names'] = ['%s.%d' % (nm.split('.')[0][:16], i) for i, nm in enumerate(wl['names'])]
        if rng.random() < 0.12 and len(wl['names']) >= 2:
            # records that share a name (with the same or with different residues): kalign_check_msa renames or
            # rejects them, kalign_msa_compare refuses them
            for _ in range(rng.randint(1, 2)):
                a, b = rng.sample(range(len(wl['names'])), 2)
                wl['names'][b] = wl['names'][a]
                if rng.random() < 0.5:
                    wl['seqs'][b] = wl['seqs'][a]
        sets.append(wl)
    files = {}
    for k, wl in enumerate(sets):
        files['set%d.fa' % k] = gen.fasta_bytes(wl['names'], wl['seqs']).decode('latin-1')
        n = len(wl['seqs'])
        if n >= 3:
            c = rng.randint(1, n - 1)
            files['set%da.fa' % k] = gen.fasta_bytes(wl['names'][:c], wl['seqs'][:c]).decode('latin-1')
            files['set%db.fa' % k] = gen.fasta_bytes(wl['names'][c:], wl['seqs'][c:]).decode('latin-1')
    length = rng.randint(3, 12) if tier == 'quick' else rng.randint(4, 25)
    ops = []
    slots = [None] * NSLOT       # None | dict(set=k, state='read'|'run'|'failed', from_file=...)
    written = []                 # (path, set, fmt)
    nout = 0

    def admissible(wl, t):
        if wl['kind'] == 'protein':
            return t in (3, 4, 5)
        return t in (0, 1, 2, 5)      # (4 is silently accepted for nucleotides too)

    def rand_type(wl):
        if rng.random() < 0.12:
            return rng.choice([0, 2, 3])      # may be inadmissible
        return rng.choice([5, 5, 3, 4]) if wl['kind'] == 'protein' else rng.choice([5, 5, 0, 1, 2])

    def rand_gp():
        return (rng.choice([2.0, 5.5, 20.0, 55.0]), rng.choice([0.5, 1.0, 8.0]), rng.choice([0.25, 1.0, 4.0])) if rng.random() < 0.2 else (-1.0, -1.0, -1.0)

    for step in range(length):
        empty = [i for i in range(NSLOT) if slots[i] is None]
        failed = [i for i in range(NSLOT) if slots[i] and slots[i]['state'] == 'failed']
        readst = [i for i in range(NSLOT) if slots[i] and slots[i]['state'] == 'read']
        runst = [i for i in range(NSLOT) if slots[i] and slots[i]['state'] == 'run']
        cands = []
        if failed:
            cands += ['F'] * 6
        if empty:
            cands += ['R'] * 4 + (['Rw'] * 2 if written else [])
        if readst:
            cands += ['X'] * 6
        if runst:
            # (kalign_run is not repeated on an object that has already been aligned: the finalised object
            #  is a different input - see DESIGN.md 12.3 F1 and 12.4 - and everything derived from it,
            #  e.g. a later compare, would inherit that)
            cands += ['W'] * 4 + ['F'] * 1
        pairs = [(a, b) for a in runst for b in runst if a < b and slots[a]['set'] == slots[b]['set'] and not slots[a].get('mixed') and not slots[b].get('mixed')]
        if pairs:
            cands += ['C'] * 3
        cands += ['A'] * 2 + ['CLI'] * 1
        if readst or runst:
            cands += ['F', 'M', 'V']
        k = rng.choice(cands)
        if k == 'R':
            s = rng.choice(empty); ks = rng.randrange(nsets)
            if ('set%da.fa' % ks) in files and rng.random() < 0.35:
                fl = ['set%da.fa' % ks, 'set%db.fa' % ks]
            else:
                fl = ['set%d.fa' % ks]
            mixed = 0
            if written and rng.random() < 0.25:
                # several files into one object, one of them an alignment kalign wrote earlier (gapped) and
                # one plain: the object passes through merge_msa with parts of different status
                path, ks2, fmt, _ = rng.choice(written)
                fl = [path] + fl if rng.random() < 0.5 else fl + [path]
                mixed = 1       # holds more than the records of one set: never compared with anything
            refused = []
            others = [j for j in range(nsets) if sets[j]['kind'] != sets[ks]['kind'] and (sets[j]['kind'] == 'protein') != (sets[ks]['kind'] == 'protein')]
            if others and rng.random() < 0.15:
                # a source of the other kind (nucleotide vs protein) in the middle or at the end: kalign_read_input refuses
                # it ("different alphabets") and the collection must stay exactly what it was - the caller carries on
                pos = rng.randint(1, len(fl))
                fl = fl[:pos] + ['set%d.fa' % rng.choice(others)] + fl[pos:]
                refused = [pos]
            ops.append({'k': 'R', 's': s, 'files': fl, 'refused': refused})
            slots[s] = {'set': ks, 'state': 'read', 'mixed': mixed}
        elif k == 'Rw':
            s = rng.choice(empty); path, ks, fmt, mixed = rng.choice(written)
            ops.append({'k': 'R', 's': s, 'files': [path]})
            slots[s] = {'set': ks, 'state': 'read', 'mixed': mixed}
        elif k == 'X':
            s = rng.choice(readst)
            wl = sets[slots[s]['set']]
            t = rand_type(wl); gp = rand_gp()
            ops.append({'k': 'X', 's': s, 'n': gen.thread_count(rng), 't': t, 'gp': gp})
            slots[s]['state'] = 'run' if admissible(wl, t) else 'failed'
        elif k == 'W':
            s = rng.choice(runst); fmt = rng.choice(['fasta', 'msf', 'clu'])
            path = 'o%d.%s' % (nout, plans.EXT[fmt]) if rng.random() < 0.85 else None
            nout += 1
            ops.append({'k': 'W', 's': s, 'path': path, 'fmt': fmt})
            if path:
                written.append((path, slots[s]['set'], fmt, slots[s].get('mixed', 0)))
        elif k == 'C':
            a, b = rng.choice(pairs)
            ops.append({'k': 'C', 'a': a, 'b': b})
        elif k == 'F':
            s = rng.choice(failed or (readst + runst))
            ops.append({'k': 'F', 's': s})
            slots[s] = None
        elif k == 'M':
            # reformat_settings_msa: rename to SEQ<n> and/or drop the gaps of an object that has not been aligned here
            s = rng.choice(readst + runst)
            ops.append({'k': 'M', 's': s, 'rename': rng.choice([0, 1, 1]), 'unalign': rng.choice([0, 1]) if s in readst else 0})
            if ops[-1]['rename']:
                slots[s]['mixed'] = 1      # renamed: no longer the same records as another object of this set for compare
        elif k == 'V':
            s = rng.choice(readst + runst)
            ops.append({'k': 'V', 's': s, 'strict': rng.choice([0, 0, 1])})
            slots[s]['mixed'] = 1          # may have renamed records that share a name
        elif k == 'A':
            ks = rng.randrange(nsets); wl = sets[ks]
            ops.append({'k': 'A', 'set': ks, 'n': gen.thread_count(rng), 't': rand_type(wl), 'gp': rand_gp()})
        else:
            ks = rng.randrange(nsets); wl = sets[ks]
            fmt = rng.choice(['fasta', 'msf', 'clu'])
            path = 'c%d.%s' % (nout, plans.EXT[fmt]); nout += 1
            ops.append({'k': 'CLI', 'set': ks, 'n': rng.choice([1, 2, 4, 8]), 't': rand_type(wl) if rng.random() < 0.5 else 5, 'gp': rand_gp(), 'path': path, 'fmt': fmt})
            written.append((path, ks, fmt, 0))
    for s in range(NSLOT):
        if slots[s] is not None:
            ops.append({'k': 'F', 's': s})
    spec = {'kind': 'C16', 'prop': 'C16', 'sets': sets, 'files': files, 'ops': ops, 'world': gen.gen_world(rng), 'junk2': rng.getrandbits(62)}
    if rng.random() < 0.15:
        spec['_variant'] = 'asan'      # a share of the histories runs on the ASan+UBSan build (history and slices alike)
    return spec


def emit(p, spec, ops, without_refused=False):
    """append the ops to plan p; returns list of (history op index -> list of plan op indices).  without_refused: the
    sources a read is expected to refuse are left out (the reference for "a refused source changes nothing")"""
    sets = spec['sets']
    m = []
    for o in ops:
        k = o['k']
        idx = []
        if k == 'R':
            for j, f in enumerate(o['files']):
                if without_refused and j in (o.get('refused') or []):
                    continue
                idx.append(p.op_R(o['s'], f, 1, keep=1 if j in (o.get('refused') or []) else 0))
            idx.append(p.op_simple('D', o['s']))
        elif k == 'X':
            idx.append(p.op_X(o['s'], o['n'], o['t'], *o['gp']))
            idx.append(p.op_simple('D', o['s']))
        elif k == 'W':
            idx.append(p.op_W(o['s'], o['path'], o['fmt']))
        elif k == 'C':
            idx.append(p.op_simple('C', o['a'], o['b']))
        elif k == 'M':
            idx.append(p.op_simple('M', o['s'], o['rename'], o['unalign']))
            idx.append(p.op_simple('D', o['s']))
        elif k == 'V':
            idx.append(p.op_simple('V', o['s'], o['strict']))
            idx.append(p.op_simple('D', o['s']))
        elif k == 'F':
            idx.append(p.op_simple('F', o['s']))
        elif k == 'A':
            wl = sets[o['set']]
            idx.append(p.op_A(wl['seqs'], o['n'], o['t'], *o['gp']))
        elif k == 'CLI':
            wl = dict(sets[o['set']]); wl['type'] = o['t']; wl['gpo'], wl['gpe'], wl['tgpe'] = o['gp']
            idx.append(p.op_CLI(plans.cli_args(wl, o['n'], o['fmt'], 'set%d.fa' % o['set'], o['path'], quiet=True)))
        m.append(idx)
    return m


def slice_of(ops, k):
    """indices of the ops op k depends on (including k): same slots since their last free, and writers of files it reads"""
    need_slots = set()
    need_files = set()
    o = ops[k]
    take = [k]

    def touch(o):
        if o['k'] in ('R', 'X', 'W', 'F', 'M', 'V'):
            return {o['s']}
        if o['k'] == 'C':
            return {o['a'], o['b']}
        return set()

    def reads(o):
        return set(o['files']) if o['k'] == 'R' else set()

    def writes(o):
        return {o['path']} if o['k'] in ('W', 'CLI') and o.get('path') else set()

    need_slots |= touch(o)
    need_files |= reads(o)
    passed_free = {}
    for j in range(k - 1, -1, -1):
        p = ops[j]
        t = touch(p)
        if p['k'] == 'F':
            # the object used later was created after this free: earlier calls on the slot concern an older object
            need_slots.discard(p['s'])
            passed_free[p['s']] = j
            continue
        rel = bool(t & need_slots)
        if writes(p) & need_files:
            rel = True
            need_files -= writes(p)
        if rel:
            take.append(j)
            for sl in t:
                # an older object in a slot that is reused later: the free in between belongs to the slice
                if passed_free.get(sl) is not None:
                    take.append(passed_free[sl]); passed_free[sl] = None
            need_slots |= t
            need_files |= reads(p)
    return sorted(take)


RESULT_KINDS = ('A', 'X', 'W', 'C', 'CLI', 'M', 'V')


def plans_of(spec):
    out = []
    w = dict(spec['world']); w['slot_guard'] = 1; w['read_fail_keeps'] = 1
    p = plans.base_plan('hist', w, trace=False)
    for fn in sorted(spec['files']):
        p.files.append((fn, 'f', spec['files'][fn].encode('latin-1')))
    p.stdin = ('tty', b'')
    hmap = emit(p, spec, spec['ops'])
    lidx = p.op_simple('L')
    out.append(('hist', spec.get('_variant', 'plain'), p, {'map': hmap, 'L': lidx}))
    calm = gen.gen_world(__import__('random').Random(spec['junk2']), calm=True)
    calm['junk_seed'] = spec['junk2']; calm['slot_guard'] = 1; calm['read_fail_keeps'] = 1
    for k, o in enumerate(spec['ops']):
        if o['k'] not in RESULT_KINDS:
            continue
        sl = slice_of(spec['ops'], k)
        if len(sl) == k + 1:
            pass    # the slice is the whole prefix: still a fresh-process, other-garbage execution
        q = plans.base_plan('s%d' % k, calm, trace=False)
        for fn in sorted(spec['files']):
            q.files.append((fn, 'f', spec['files'][fn].encode('latin-1')))
        q.stdin = ('tty', b'')
        smap = emit(q, spec, [spec['ops'][j] for j in sl], without_refused=True)
        out.append(('s%d' % k, spec.get('_variant', 'plain'), q, {'map': smap, 'slice': sl, 'pos': sl.index(k)}, True))
    return out


def op_result(res, idxs):
    r = []
    for i in idxs:
        o = res.op(i)
        if o is None:
            r.append(('missing',))
            continue
        fields = tuple(sorted((a, b) for a, b in o.f.items() if a not in ('score',)))
        outs = tuple(sorted((k, plans._mask_log_time(v) if k in ('stdout', 'stderr') and isinstance(v, bytes) else v) for k, v in o.out.items()))
        r.append((o.code, fields, outs))
    return r


def judge(spec, results):
    V = []
    pl = spec['_plans']
    bytag = {t[0]: t for t in pl}
    hist = results['hist']
    hix = bytag['hist'][3]

    def add(cls, detail, tag):
        V.append({'prop': 'C16', 'cls': cls, 'detail': detail, 'sig': 'C16:' + cls, 'tag': tag})

    for tag, r in results.items():
        for cls, detail in r.viol:
            pr = cls.split('_', 1)[0]
            V.append({'prop': pr, 'cls': cls, 'detail': detail, 'sig': '%s:%s' % (pr, cls), 'tag': tag})
    if hist.crash_class() == 'SLOW':
        return V
    if hist.crashed():
        # is it the history or the call itself?  if some slice crashes the same way it is an input matter (C05's domain)
        same = [t for t, r in results.items() if t != 'hist' and r.crashed()]
        if same:
            V.append({'prop': 'X', 'cls': 'X_CRASH', 'detail': 'history and slice %s both end with %s at %s' % (same[0], hist.crash_class(), hist.crash_site()), 'sig': 'X:CRASH:%s' % hist.crash_site(), 'tag': 'hist'})
        else:
            add('CRASH_ONLY_IN_HISTORY', 'every call survives alone in a fresh process, the history ends with %s at %s' % (hist.crash_class(), hist.crash_site()), 'hist')
        return V
    allok = True       # only a failing CLI main excuses a leak: it ends in exit(), after which nothing is "still allocated"
    anyfail = False
    for k, o in enumerate(spec['ops']):
        for i in hix['map'][k]:
            ro = hist.op(i)
            if ro is None or (ro.rc != 0 and not ro.f.get('skipped')):
                anyfail = True
                if o['k'] == 'CLI' or ro is None:
                    allok = False
    for k, o in enumerate(spec['ops']):
        tag = 's%d' % k
        if tag not in results:
            continue
        sres = results[tag]
        six = bytag[tag][3]
        if sres.crashed():
            V.append({'prop': 'X', 'cls': 'X_CRASH', 'detail': 'slice of call %d ends with %s at %s' % (k, sres.crash_class(), sres.crash_site()), 'sig': 'X:CRASH:%s' % sres.crash_site(), 'tag': tag})
            continue
        # slices leave out the sources a read was expected to refuse; if the history's read accepted such a source
        # after all (the detection saw compatible kinds) the slice is not the same data: not judged
        accepted = False
        for j in six['slice']:
            oj = spec['ops'][j]
            if oj['k'] == 'R' and oj.get('refused'):
                for pos in oj['refused']:
                    rr = hist.op(hix['map'][j][pos]) if pos < len(hix['map'][j]) else None
                    if rr is None or rr.rc == 0 or rr.f.get('skipped'):
                        accepted = True
        if accepted:
            continue
        a = op_result(hist, hix['map'][k])
        b = op_result(sres, six['map'][six['pos']])
        if a != b:
            d = 'different'
            for x, y in zip(a, b):
                if x != y:
                    if x[:2] != y[:2]:
                        d = '%s vs %s' % (x[:2], y[:2])
                    else:
                        dx, dy = dict(x[2]), dict(y[2])
                        for key in sorted(set(list(dx) + list(dy))):
                            if dx.get(key) != dy.get(key):
                                d = 'output %s: %r vs %r' % (key, str(dx.get(key))[:80], str(dy.get(key))[:80])
                                break
                    break
            add('RESULT_DEPENDS_ON_HISTORY', 'call %d (%s) in the history vs the same call with only its data slice in a fresh process: %s' % (k, describe(o), d), tag)
    lo = hist.op(hix['L'])
    if lo is not None:
        live = int(lo.f.get('live', 0))
        if live > 0 and allok:
            add('LEAK_AFTER_FREE' if not anyfail else 'LEAK_AFTER_FAILED_CALL', '%d allocation(s), %s bytes of kalign memory still allocated after every object was freed (%s); blocks (size@allocation#):%s' % (live, lo.f.get('bytes'), 'all calls returned OK' if not anyfail else 'a library call had failed and its object was freed', lo.f.get('blocks', '')), 'hist')
        if int(lo.f.get('streams', 0)) > 0:
            add('STREAM_LEFT_OPEN', '%s stream(s) still open at the end of the history' % lo.f.get('streams'), 'hist')
    return V


def describe(o):
    k = o['k']
    if k == 'R':
        return 'read %s into slot %d' % ('+'.join(o['files']), o['s'])
    if k == 'X':
        return 'run slot %d threads=%d type=%d gp=%s' % (o['s'], o['n'], o['t'], list(o['gp']))
    if k == 'W':
        return 'write slot %d as %s to %s' % (o['s'], o['fmt'], o['path'])
    if k == 'C':
        return 'compare slots %d,%d' % (o['a'], o['b'])
    if k == 'F':
        return 'free slot %d' % o['s']
    if k == 'M':
        return 'reformat_settings_msa slot %d rename=%d unalign=%d' % (o['s'], o['rename'], o['unalign'])
    if k == 'V':
        return 'kalign_check_msa slot %d exit_on_error=%d' % (o['s'], o['strict'])
    if k == 'A':
        return 'kalign() on set %d threads=%d type=%d' % (o['set'], o['n'], o['t'])
    return 'CLI on set %d threads=%d type=%d -> %s' % (o['set'], o['n'], o['t'], o['path'])


def nontrivial_keys(spec, results):
    import hashlib, json
    nres = sum(1 for o in spec['ops'] if o['k'] in RESULT_KINDS)
    indep = any(len(slice_of(spec['ops'], k)) < k + 1 for k, o in enumerate(spec['ops']) if o['k'] in RESULT_KINDS)
    if nres >= 2 and indep:
        return [hashlib.sha256(json.dumps([spec['ops'], [s['seqs'] for s in spec['sets']]]).encode()).hexdigest()[:16]]
    return []


def job_stats(spec, results):
    st = {'calls': {}, 'history_len': {str(min(25, len(spec['ops']))): 1}, 'fresh_process_slices': sum(1 for t in results if t != 'hist')}
    for o in spec['ops']:
        st['calls'][o['k']] = st['calls'].get(o['k'], 0) + 1
    hist = results.get('hist')
    return st


def summary(spec, results=None):
    return {'record_sets': [{'kind': s['kind'], 'numseq': len(s['seqs']), 'len_max': max(len(x) for x in s['seqs'])} for s in spec['sets']],
            'history': [describe(o) for o in spec['ops']]}


def shrinks(spec, viol):
    ops = spec['ops']
    tag = viol.get('tag', '')
    # keep the prefix up to the offending call
    if tag.startswith('s') and tag[1:].isdigit():
        k = int(tag[1:])
        if k + 1 < len(ops):
            s = copy.deepcopy(spec); s['ops'] = ops[:k + 1] + [o for o in ops[k + 1:] if o['k'] == 'F']
            yield s
    # drop single calls (keeping slot discipline is the driver's job: slot_guard skips calls on missing objects)
    for i in range(len(ops)):
        s = copy.deepcopy(spec); s['ops'] = ops[:i] + ops[i + 1:]
        yield s
    for ks, wl in enumerate(spec['sets']):
        n = len(wl['seqs'])
        if n > 2:
            for i in range(n):
                s = copy.deepcopy(spec)
                s['sets'][ks]['seqs'] = wl['seqs'][:i] + wl['seqs'][i + 1:]; s['sets'][ks]['names'] = wl['names'][:i] + wl['names'][i + 1:]
                rebuild_files(s)
                yield s
        s = copy.deepcopy(spec)
        s['sets'][ks]['seqs'] = [x[:max(1, len(x) // 2)] for x in wl['seqs']]
        if s['sets'][ks]['seqs'] != wl['seqs']:
            rebuild_files(s)
            yield s
    w = spec['world']
    for key in ('p_defer', 'p_switch', 'p_hook_yield', 'p_stall', 'p_shortfall'):
        if w.get(key):
            s = copy.deepcopy(spec); s['world'][key] = 0
            yield s
    for i, o in enumerate(ops):
        if o.get('n', 1) > 1:
            s = copy.deepcopy(spec); s['ops'][i]['n'] = 1
            yield s


def rebuild_files(spec):
    for k, wl in enumerate(spec['sets']):
        spec['files']['set%d.fa' % k] = gen.fasta_bytes(wl['names'], wl['seqs']).decode('latin-1')
        n = len(wl['seqs'])
        if ('set%da.fa' % k) in spec['files']:
            c = max(1, min(n - 1, n // 2))
            spec['files']['set%da.fa' % k] = gen.fasta_bytes(wl['names'][:c], wl['seqs'][:c]).decode('latin-1')
            spec['files']['set%db.fa' % k] = gen.fasta_bytes(wl['names'][c:], wl['seqs'][c:]).decode('latin-1')


def harden(spec):
    """the same job on the ASan+UBSan build (used by the gate for erratic candidates)"""
    s = copy.deepcopy(spec)
    s['_variant'] = 'asan'
    return s
