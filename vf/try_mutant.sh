#!/bin/bash
# apply a seeded change to /repo, run the given quick checks, undo it straight afterwards
M=$(readlink -f "$1"); shift
cd /verif
git -C /repo apply "$M/patch.diff" || { echo "patch does not apply"; exit 2; }
trap 'git -C /repo checkout -- . ; git -C /repo status --short | grep -v _build' EXIT
for p in "$@"; do
  echo "--- $p"
  python3 vf/check.py $p ${TIER:-quick} 2>&1 | grep -E "VIOLATION|candidate|UNCONFIRMED|HARNESS|BUILD|quick:|thorough:|minimised" | cut -c1-420 | head -12
done
