/* simalloc: junk fill, live-set accounting and (non-gating) allocation failure for every
 * allocation made from kalign objects (link-time --wrap of the malloc family).
 * The real allocator (glibc or ASan) stays underneath. */
#define _GNU_SOURCE
#include <stdlib.h>
#include <string.h>
#include <errno.h>
#include "sim.h"

void *__real_malloc(size_t);
void *__real_calloc(size_t, size_t);
void *__real_realloc(void *, size_t);
void  __real_free(void *);
int   __real_posix_memalign(void **, size_t, size_t);
void *__real_aligned_alloc(size_t, size_t);

void *sim_xmalloc(size_t n) { void *p = __real_malloc(n ? n : 1); if (!p) abort(); return p; }
void *sim_xcalloc(size_t n, size_t m) { void *p = __real_calloc(n ? n : 1, m ? m : 1); if (!p) abort(); return p; }
void *sim_xrealloc(void *q, size_t n) { void *p = __real_realloc(q, n ? n : 1); if (!p) abort(); return p; }
void  sim_xfree(void *p) { __real_free(p); }

typedef struct { void *p; size_t n; uint64_t seq; } Ent;
static Ent *g_tab; static size_t g_cap, g_cnt, g_tomb;
static size_t g_live_bytes;
static uint64_t g_seq;
#define TOMB ((void *)1)

static size_t hp(void *p) { uint64_t x = (uint64_t)(uintptr_t)p; x ^= x >> 33; x *= 0xff51afd7ed558ccdULL; x ^= x >> 33; return (size_t)x; }

static void tab_grow(void)
{
    size_t ncap = g_cap ? g_cap * 2 : 4096;
    Ent *old = g_tab; size_t ocap = g_cap;
    g_tab = sim_xcalloc(ncap, sizeof(Ent)); g_cap = ncap; g_tomb = 0;
    for (size_t i = 0; i < ocap; i++) if (old[i].p && old[i].p != TOMB) {
        size_t j = hp(old[i].p) & (ncap - 1);
        while (g_tab[j].p) j = (j + 1) & (ncap - 1);
        g_tab[j] = old[i];
    }
    sim_xfree(old);
}

static void tab_put(void *p, size_t n)
{
    if ((g_cnt + g_tomb + 1) * 2 > g_cap) tab_grow();
    size_t j = hp(p) & (g_cap - 1);
    while (g_tab[j].p && g_tab[j].p != TOMB) j = (j + 1) & (g_cap - 1);
    if (g_tab[j].p == TOMB) g_tomb--;
    g_tab[j].p = p; g_tab[j].n = n; g_tab[j].seq = g_seq;
    g_cnt++; g_live_bytes += n;
}

static Ent *tab_get(void *p)
{
    if (!g_cap) return NULL;
    size_t j = hp(p) & (g_cap - 1);
    while (g_tab[j].p) { if (g_tab[j].p == p) return &g_tab[j]; j = (j + 1) & (g_cap - 1); }
    return NULL;
}

static void tab_del(Ent *e) { g_live_bytes -= e->n; e->p = TOMB; g_cnt--; g_tomb++; }

static void junk(void *p, size_t n, uint64_t seq)
{
    if (!W.junk_on || !n) return;
    uint64_t x = W.junk_seed * 0x9E3779B97F4A7C15ULL + seq * 0xD1342543DE82EF95ULL + 1;
    unsigned char *b = p;
    g_probe[PR_JUNK_BYTES] += n;
    while (n >= 8) { x ^= x << 13; x ^= x >> 7; x ^= x << 17; memcpy(b, &x, 8); b += 8; n -= 8; }
    if (n) { x ^= x << 13; x ^= x >> 7; x ^= x << 17; memcpy(b, &x, n); }
}

static int should_fail(void)
{
    if (!g_sim_active) return 0;
    g_probe[PR_ALLOCS]++;
    g_seq++;
    if (W.alloc_fail_at >= 0 && (long)g_probe[PR_ALLOCS] == W.alloc_fail_at + 1) { g_probe[PR_ALLOC_FAILS]++; errno = ENOMEM; return 1; }
    return 0;
}

void *__wrap_malloc(size_t n)
{
    if (should_fail()) return NULL;
    void *p = __real_malloc(n);
    if (p && g_sim_active) { junk(p, n, g_seq); tab_put(p, n); }
    return p;
}

void *__wrap_calloc(size_t a, size_t b)
{
    if (should_fail()) return NULL;
    void *p = __real_calloc(a, b);
    if (p && g_sim_active) tab_put(p, a * b);
    return p;
}

void *__wrap_realloc(void *q, size_t n)
{
    if (!q) return __wrap_malloc(n);
    if (should_fail()) return NULL;
    Ent *e = tab_get(q);
    size_t old = e ? e->n : 0;
    int known = e != NULL;
    if (e) tab_del(e);
    void *p = __real_realloc(q, n);
    if (!p) { if (known && n) tab_put(q, old); return NULL; }
    if (known || g_sim_active) {
        if (known && n > old) junk((char *)p + old, n - old, g_seq);
        tab_put(p, n);
    }
    return p;
}

void __wrap_free(void *p)
{
    if (!p) return;
    Ent *e = tab_get(p);
    if (e) tab_del(e);
    __real_free(p);
}

int __wrap_posix_memalign(void **out, size_t al, size_t n)
{
    if (should_fail()) return ENOMEM;
    int r = __real_posix_memalign(out, al, n);
    if (r == 0 && g_sim_active) { junk(*out, n, g_seq); tab_put(*out, n); }
    return r;
}

void *__wrap_aligned_alloc(size_t al, size_t n)
{
    if (should_fail()) return NULL;
    void *p = __real_aligned_alloc(al, n);
    if (p && g_sim_active) { junk(p, n, g_seq); tab_put(p, n); }
    return p;
}

void simalloc_reset(void) { g_seq = 0; }
long simalloc_live(void) { return (long)g_cnt; }
size_t simalloc_live_bytes(void) { return g_live_bytes; }

void simalloc_dump_live(FILE *f, int max)
{
    /* in allocation order, so the output does not depend on addresses */
    uint64_t last = 0;
    for (int k = 0; k < max; k++) {
        Ent *best = NULL;
        for (size_t i = 0; i < g_cap; i++) if (g_tab[i].p && g_tab[i].p != TOMB && g_tab[i].seq > last && (!best || g_tab[i].seq < best->seq)) best = &g_tab[i];
        if (!best) break;
        fprintf(f, "%s%zu@%llu", k ? "," : "", best->n, (unsigned long long)best->seq);
        last = best->seq;
    }
}

/* drop the accounting (not the memory) - used after a plan whose objects cannot be freed safely */
void simalloc_forget_all(void)
{
    if (g_tab) memset(g_tab, 0, g_cap * sizeof(Ent));
    g_cnt = g_tomb = 0; g_live_bytes = 0;
}
