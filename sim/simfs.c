/* simfs: the only file system, stdin/stdout/stderr and exit() kalign sees.
 *
 * Link-time seams (-Wl,--wrap=...): fopen, stat, isatty, exit.  Streams are fopencookie
 * streams, so kalign's own getline/fprintf/fclose run unmodified inside glibc over callbacks
 * that the simulator owns: seeded chunking, short reads, EIO at a chosen offset, open/stat
 * errors.  Everything written is captured.
 */
#define _GNU_SOURCE
#include <stdio.h>
#include <stdlib.h>
#include <string.h>
#include <errno.h>
#include <setjmp.h>
#include <sys/stat.h>
#include <sys/mman.h>
#include "sim.h"

typedef struct SFile {
    char *path;
    char kind;               /* 'f' regular, 'd' directory, 'x' no read permission, 'r' read-only file, 'D' read-only directory */
    unsigned char *data; size_t n, cap;
    int written;             /* created or modified by kalign during this plan */
    int stat_err, openr_err, openw_err;
    long read_fault_at;      /* byte offset at which read fails (-1 off) */
    int  read_fault_err;
    long write_fault_at;     /* after this many bytes written, writes fail (-1 off) */
    int  write_fault_err;
    struct SFile *next;
} SFile;

typedef struct Stream {
    SFile *f;                /* NULL for std streams backed by buf */
    size_t pos;
    int mode;                /* 0 read, 1 write */
    int std;                 /* 0 file, 1 stdin, 2 stdout, 3 stderr */
    int closed;
    FILE *fp;
    int fd_only;             /* opened with open(): no FILE */
    struct Stream *lnext;
    sim_rng rng;
} Stream;

static SFile *g_files;
#include <stdarg.h>
#include <fcntl.h>
#include <unistd.h>
static SFile g_stdin_file, g_stdout_file, g_stderr_file;
static Stream *g_stdin_stream;
static Stream *g_streams;
static FILE *g_sim_stdin, *g_sim_stdout, *g_sim_stderr;
static FILE *g_real_stdin, *g_real_stdout, *g_real_stderr;
static int g_stdin_closed_by_kalign, g_stdin_kind;  /* 0 tty, 1 closed, 2 empty, 3 pipe */
int g_stdin_tty = 1;
static int g_in_call;
static unsigned g_open_streams;

jmp_buf g_exit_jmp; int g_exit_armed, g_exit_code;

static SFile *sf_find(const char *path)
{
    for (SFile *f = g_files; f; f = f->next) if (strcmp(f->path, path) == 0) return f;
    return NULL;
}

static SFile *sf_new(const char *path, char kind)
{
    SFile *f = sim_xcalloc(1, sizeof *f);
    f->path = sim_xmalloc(strlen(path) + 1); strcpy(f->path, path);
    f->kind = kind; f->read_fault_at = -1; f->write_fault_at = -1;
    f->next = g_files; g_files = f;
    return f;
}

static void sf_append(SFile *f, const void *p, size_t n)
{
    if (f->n + n + 1 > f->cap) { f->cap = (f->n + n + 1) * 2; f->data = sim_xrealloc(f->data, f->cap); }
    memcpy(f->data + f->n, p, n); f->n += n; f->data[f->n] = 0;
}

static void simfs_drop_leaked(void);
void simfs_reset(void)
{
    /* descriptors and streams the previous plan's code left open must not leak into this plan's count (or keep
       pointing at files that are freed below): descriptor-only streams are dropped, leaked FILE streams are detached */
    simfs_drop_leaked();
    for (SFile *f = g_files, *nx; f; f = nx) { nx = f->next; sim_xfree(f->path); sim_xfree(f->data); sim_xfree(f); }
    g_files = NULL;
    sim_xfree(g_stdin_file.data); sim_xfree(g_stdout_file.data); sim_xfree(g_stderr_file.data);
    memset(&g_stdin_file, 0, sizeof g_stdin_file); memset(&g_stdout_file, 0, sizeof g_stdout_file); memset(&g_stderr_file, 0, sizeof g_stderr_file);
    g_stdin_file.read_fault_at = -1; g_stdout_file.write_fault_at = -1; g_stderr_file.write_fault_at = -1;
    g_stdin_tty = 1; g_stdin_kind = 0; g_stdin_closed_by_kalign = 0;
}

void simfs_add(const char *path, char kind, const unsigned char *data, size_t n)
{
    SFile *f = sf_find(path);
    if (!f) f = sf_new(path, kind);
    f->kind = kind; f->n = 0;
    if (n) sf_append(f, data, n);
}

void simfs_fault(const char *path, const char *op, int err, long at)
{
    SFile *f = strcmp(path, "<stdin>") == 0 ? &g_stdin_file : sf_find(path);
    if (!f) f = sf_new(path, '?');       /* '?' = does not exist, but carries faults */
    if (!strcmp(op, "stat")) f->stat_err = err;
    else if (!strcmp(op, "openr")) f->openr_err = err;
    else if (!strcmp(op, "openw")) f->openw_err = err;
    else if (!strcmp(op, "read")) { f->read_fault_at = at; f->read_fault_err = err; }
    else if (!strcmp(op, "write")) { f->write_fault_at = at; f->write_fault_err = err; }
}

void simfs_set_stdin(const char *kind, const unsigned char *data, size_t n)
{
    g_stdin_file.n = 0;
    if (!strcmp(kind, "tty")) { g_stdin_kind = 0; g_stdin_tty = 1; }
    else if (!strcmp(kind, "closed")) { g_stdin_kind = 1; g_stdin_tty = 0; }
    else if (!strcmp(kind, "empty")) { g_stdin_kind = 2; g_stdin_tty = 0; }
    else { g_stdin_kind = 3; g_stdin_tty = 0; if (n) sf_append(&g_stdin_file, data, n); }
}

/* ------------------------------------------------------------------ cookie callbacks */

static size_t chunk_size(Stream *s, size_t want, size_t avail)
{
    size_t c = want < avail ? want : avail;
    size_t lim;
    switch (W.chunk_mode) {
    case 1: lim = 1 + sim_rng_below(&s->rng, 7); break;
    case 2: { unsigned k = sim_rng_below(&s->rng, 17); lim = ((size_t)1 << k) - sim_rng_below(&s->rng, (uint32_t)(((size_t)1 << k) / 2 + 1)); if (!lim) lim = 1; } break;
    case 3: {   /* stop right after/before line ends to split \r\n and final lines */
        lim = c;
        unsigned char *p = s->f->data + s->pos;
        size_t i, stop = sim_rng_below(&s->rng, 4);
        for (i = 0; i < c; i++) if (p[i] == '\n' || p[i] == '\r') { if (!stop--) { lim = i + (sim_rng_below(&s->rng, 2)); if (!lim) lim = 1; break; } }
        } break;
    default: lim = c; break;
    }
    if (c > lim) { c = lim; g_probe[PR_FS_SHORT_READS]++; }
    return c;
}

static ssize_t ck_read(void *ck, char *buf, size_t size)
{
    Stream *s = ck;
    SFile *f = s->f;
    g_probe[PR_FS_READS]++;
    if (f->kind == 'd' || f->kind == 'D') { errno = EISDIR; g_probe[PR_FS_READ_FAULTS]++; return -1; }
    if (s->std == 1 && g_stdin_kind == 1) { errno = EBADF; g_probe[PR_FS_READ_FAULTS]++; return -1; }
    if (f->read_fault_at >= 0 && (long)s->pos >= f->read_fault_at) { errno = f->read_fault_err; g_probe[PR_FS_READ_FAULTS]++; return -1; }
    size_t avail = f->n - s->pos;
    if (f->read_fault_at >= 0 && (long)(s->pos + avail) > f->read_fault_at) avail = (size_t)f->read_fault_at - s->pos;
    if (!avail || !size) return 0;
    size_t c = chunk_size(s, size, avail);
    memcpy(buf, f->data + s->pos, c);
    s->pos += c;
    return (ssize_t)c;
}

static ssize_t ck_write(void *ck, const char *buf, size_t size)
{
    Stream *s = ck;
    SFile *f = s->f;
    g_probe[PR_FS_WRITES]++;
    if (f->write_fault_at >= 0) {
        long room = f->write_fault_at - (long)f->n;
        if (room <= 0) { errno = f->write_fault_err; g_probe[PR_FS_WRITE_FAULTS]++; return 0; }
        if ((long)size > room) { sf_append(f, buf, (size_t)room); f->written = 1; g_probe[PR_FS_WRITE_FAULTS]++; return (ssize_t)room; }
    }
    sf_append(f, buf, size);
    f->written = 1;
    return (ssize_t)size;
}

static int ck_seek(void *ck, off64_t *off, int whence)
{
    Stream *s = ck;
    SFile *f = s->f;
    off64_t base = whence == SEEK_SET ? 0 : (whence == SEEK_CUR ? (off64_t)s->pos : (off64_t)f->n);
    off64_t np = base + *off;
    if (s->std || np < 0 || (s->f && s->f->kind == 'p')) { errno = (s->std || np >= 0) ? ESPIPE : EINVAL; return -1; }    /* pipes and terminals do not seek */
    if (s->mode == 0 && np > (off64_t)f->n) np = (off64_t)f->n;
    s->pos = (size_t)np;
    *off = np;
    return 0;
}

/* ---- descriptor level (open/read/lseek/fstat/close/fileno): a change of kalign that reads through
   descriptors instead of stdio still sees the simulated files.  Fake descriptors start at SIM_FD0. */
#define SIM_FD0 1000
#define SIM_NFD 64
static Stream *g_fd[SIM_NFD];
static void simfs_drop_leaked(void)
{
    for (int i = 0; i < SIM_NFD; i++) if (g_fd[i]) {
        Stream *st = g_fd[i]; g_fd[i] = NULL;
        if (st->fd_only) { for (Stream **pp = &g_streams; *pp; pp = &(*pp)->lnext) if (*pp == st) { *pp = st->lnext; break; } sim_xfree(st); }
    }
    for (Stream *st = g_streams; st; st = st->lnext) if (!st->std) st->f = NULL;
    g_open_streams = 0;
}
static int fd_alloc(Stream *st) { for (int i = 0; i < SIM_NFD; i++) if (!g_fd[i]) { g_fd[i] = st; return SIM_FD0 + i; } errno = EMFILE; return -1; }
static Stream *fd_get(int fd) { return fd >= SIM_FD0 && fd < SIM_FD0 + SIM_NFD ? g_fd[fd - SIM_FD0] : NULL; }
static void fd_drop(Stream *st) { for (int i = 0; i < SIM_NFD; i++) if (g_fd[i] == st) g_fd[i] = NULL; }

static int ck_close(void *ck)
{
    Stream *s = ck;
    if (s->std == 1) { g_stdin_closed_by_kalign = 1; g_stdin_stream = NULL; }
    if (!s->std) g_open_streams--;
    fd_drop(s);
    for (Stream **pp = &g_streams; *pp; pp = &(*pp)->lnext) if (*pp == s) { *pp = s->lnext; break; }
    sim_xfree(s);
    return 0;
}

static FILE *open_stream(SFile *f, int mode, int std)
{
    Stream *s = sim_xcalloc(1, sizeof *s);
    s->f = f; s->mode = mode; s->std = std;
    uint64_t h = W.fs_seed;
    for (const char *p = f->path ? f->path : "std"; *p; p++) h = h * 1099511628211ULL + (unsigned char)*p;
    s->rng.s = h ^ (uint64_t)mode;
    cookie_io_functions_t io = { mode ? NULL : ck_read, mode ? ck_write : NULL, ck_seek, ck_close };
    FILE *fp = fopencookie(s, mode ? "w" : "r", io);
    if (!fp) { sim_xfree(s); return NULL; }
    s->fp = fp;
    if (!std) g_open_streams++;
    if (std == 1) g_stdin_stream = s;
    s->lnext = g_streams; g_streams = s;
    return fp;
}

static Stream *g_all_streams_lookup(FILE *fp)
{
    for (Stream *s = g_streams; s; s = s->lnext) if (s->fp == fp) return s;
    return NULL;
}

/* ------------------------------------------------------------------ wrapped libc entry points */

static int parent_ok(const char *path, int *err)
{
    /* the directory part must be a declared directory (or empty = cwd) */
    const char *sl = strrchr(path, '/');
    if (!sl) return 1;
    size_t n = (size_t)(sl - path);
    if (n == 0) return 1;
    char *d = sim_xmalloc(n + 1); memcpy(d, path, n); d[n] = 0;
    SFile *f = sf_find(d);
    sim_xfree(d);
    if (!f || f->kind == '?') { *err = ENOENT; return 0; }
    if (f->kind == 'D') { *err = EACCES; return 0; }
    if (f->kind != 'd') { *err = ENOTDIR; return 0; }
    return 1;
}

FILE *__real_fopen(const char *path, const char *mode);
FILE *__wrap_fopen(const char *path, const char *mode)
{
    if (!g_in_call) return __real_fopen(path, mode);
    if (!path || !*path) { errno = ENOENT; g_probe[PR_FS_OPEN_FAULTS]++; return NULL; }
    SFile *f = sf_find(path);
    int wr = mode[0] == 'w' || mode[0] == 'a';
    if (!wr) {
        if (f && f->openr_err) { errno = f->openr_err; g_probe[PR_FS_OPEN_FAULTS]++; return NULL; }
        if (!f || f->kind == '?') { errno = ENOENT; g_probe[PR_FS_OPEN_FAULTS]++; return NULL; }
        if (f->kind == 'x') { errno = EACCES; g_probe[PR_FS_OPEN_FAULTS]++; return NULL; }
        return open_stream(f, 0, 0);
    }
    if (f && f->openw_err) { errno = f->openw_err; g_probe[PR_FS_OPEN_FAULTS]++; return NULL; }
    if (f && (f->kind == 'd' || f->kind == 'D')) { errno = EISDIR; g_probe[PR_FS_OPEN_FAULTS]++; return NULL; }
    if (f && f->kind == 'r') { errno = EACCES; g_probe[PR_FS_OPEN_FAULTS]++; return NULL; }
    int err = 0;
    if ((!f || f->kind == '?') && !parent_ok(path, &err)) { errno = err; g_probe[PR_FS_OPEN_FAULTS]++; return NULL; }
    if (!f) f = sf_new(path, 'f');
    if (f->kind == '?') f->kind = 'f';
    if (mode[0] == 'w') f->n = 0;
    f->written = 1;
    return open_stream(f, 1, 0);
}

int __real_stat(const char *path, struct stat *st);
int __wrap_stat(const char *path, struct stat *st)
{
    if (!g_in_call) return __real_stat(path, st);
    SFile *f = sf_find(path);
    if (f && f->stat_err) { errno = f->stat_err; g_probe[PR_FS_STAT_FAULTS]++; return -1; }
    if (!f || f->kind == '?') { errno = ENOENT; g_probe[PR_FS_STAT_FAULTS]++; return -1; }
    memset(st, 0, sizeof *st);
    st->st_mode = (f->kind == 'd' || f->kind == 'D') ? (S_IFDIR | 0755) : f->kind == 'p' ? (S_IFIFO | 0644) : (S_IFREG | 0644);
    st->st_size = f->kind == 'p' ? 0 : (off_t)f->n;     /* 'p': a named pipe / process substitution / proc file: readable, size 0 */
    return 0;
}

int __real_isatty(int fd);
int __wrap_isatty(int fd)
{
    if (!g_in_call) return __real_isatty(fd);
    /* kalign only ever asks about stdin */
    if (fd_get(fd) || fd == 1 || fd == 2) { errno = ENOTTY; return 0; }
    if (!g_stdin_tty) errno = ENOTTY;
    return g_stdin_tty;
}

void __real_exit(int code) __attribute__((noreturn));
void __wrap_exit(int code)
{
    if (g_in_call && g_exit_armed) {
        if (simomp_cur_fiber() != 0) sim_fatal("EXIT_IN_TASK", "exit(%d) called inside a parallel region", code);
        g_exit_code = code;
        longjmp(g_exit_jmp, 1);
    }
    __real_exit(code);
}
int simfs_exit_armed(void) { return g_exit_armed; }

static Stream *g_all_streams_lookup(FILE *fp);

int __real_fileno(FILE *fp);
int __wrap_fileno(FILE *fp)
{
    if (!g_in_call) return __real_fileno(fp);
    Stream *st = g_all_streams_lookup(fp);
    if (!st) return __real_fileno(fp);
    if (st->std) return st->std - 1;                      /* 0,1,2 - only ever handed to isatty() */
    for (int i = 0; i < SIM_NFD; i++) if (g_fd[i] == st) return SIM_FD0 + i;
    return fd_alloc(st);
}

int __real_open(const char *path, int flags, ...);
int __wrap_open(const char *path, int flags, ...)
{
    if (!g_in_call) { va_list ap; va_start(ap, flags); int mode = va_arg(ap, int); va_end(ap); return __real_open(path, flags, mode); }
    int wr = (flags & 3) != 0;
    SFile *f = sf_find(path);
    if (!wr) {
        if (f && f->openr_err) { errno = f->openr_err; g_probe[PR_FS_OPEN_FAULTS]++; return -1; }
        if (!f || f->kind == '?') { errno = ENOENT; g_probe[PR_FS_OPEN_FAULTS]++; return -1; }
        if (f->kind == 'x') { errno = EACCES; g_probe[PR_FS_OPEN_FAULTS]++; return -1; }
    } else {
        int err = 0;
        if (f && f->openw_err) { errno = f->openw_err; g_probe[PR_FS_OPEN_FAULTS]++; return -1; }
        if (f && (f->kind == 'd' || f->kind == 'D')) { errno = EISDIR; g_probe[PR_FS_OPEN_FAULTS]++; return -1; }
        if (f && f->kind == 'r') { errno = EACCES; g_probe[PR_FS_OPEN_FAULTS]++; return -1; }
        if ((!f || f->kind == '?') && !parent_ok(path, &err)) { errno = err; g_probe[PR_FS_OPEN_FAULTS]++; return -1; }
        if (!f) f = sf_new(path, 'f');
        if (f->kind == '?') f->kind = 'f';
        if (flags & 01000) f->n = 0;                      /* O_TRUNC */
        f->written = 1;
    }
    Stream *st = sim_xcalloc(1, sizeof *st);
    st->f = f; st->mode = wr; st->fd_only = 1;
    uint64_t h = W.fs_seed;
    for (const char *p = f->path; *p; p++) h = h * 1099511628211ULL + (unsigned char)*p;
    st->rng.s = h ^ (uint64_t)wr;
    int fd = fd_alloc(st);
    if (fd < 0) { sim_xfree(st); return -1; }
    g_open_streams++;
    return fd;
}

ssize_t __real_read(int fd, void *buf, size_t n);
ssize_t __wrap_read(int fd, void *buf, size_t n)
{
    Stream *st = g_in_call ? fd_get(fd) : NULL;
    if (!st) {
        if (g_in_call && fd == 0 && g_stdin_stream) return ck_read(g_stdin_stream, buf, n);
        return __real_read(fd, buf, n);
    }
    return ck_read(st, buf, n);
}

ssize_t __real_write(int fd, const void *buf, size_t n);
ssize_t __wrap_write(int fd, const void *buf, size_t n)
{
    Stream *st = g_in_call ? fd_get(fd) : NULL;
    if (!st) return __real_write(fd, buf, n);
    ssize_t r = ck_write(st, buf, n);
    return r == 0 && n ? -1 : r;
}

off_t __real_lseek(int fd, off_t off, int whence);
off_t __wrap_lseek(int fd, off_t off, int whence)
{
    Stream *st = g_in_call ? fd_get(fd) : NULL;
    if (!st) return __real_lseek(fd, off, whence);
    off64_t o = off;
    return ck_seek(st, &o, whence) == 0 ? (off_t)o : (off_t)-1;
}

int __real_close(int fd);
int __wrap_close(int fd)
{
    Stream *st = g_in_call ? fd_get(fd) : NULL;
    if (!st) return __real_close(fd);
    if (st->fd_only) { g_fd[fd - SIM_FD0] = NULL; g_open_streams--; sim_xfree(st); }
    return 0;
}

int __real_fstat(int fd, struct stat *sb);
int __wrap_fstat(int fd, struct stat *sb)
{
    Stream *st = g_in_call ? fd_get(fd) : NULL;
    if (!st) return __real_fstat(fd, sb);
    memset(sb, 0, sizeof *sb);
    sb->st_mode = (st->f->kind == 'd' || st->f->kind == 'D') ? (S_IFDIR | 0755) : st->f->kind == 'p' ? (S_IFIFO | 0644) : (S_IFREG | 0644);
    sb->st_size = st->f->kind == 'p' ? 0 : (off_t)st->f->n;
    return 0;
}

int __real_access(const char *path, int mode);
int __wrap_access(const char *path, int mode)
{
    if (!g_in_call) return __real_access(path, mode);
    SFile *f = sf_find(path);
    (void)mode;
    if (f && f->stat_err) { errno = f->stat_err; g_probe[PR_FS_STAT_FAULTS]++; return -1; }
    if (!f || f->kind == '?') { errno = ENOENT; return -1; }
    if (f->kind == 'x' && (mode & 4)) { errno = EACCES; return -1; }
    return 0;
}

/* ---- other ways a change may get at file contents through a descriptor opened on a simulated file */
void *__real_mmap(void *addr, size_t len, int prot, int flags, int fd, off_t off);
void *__wrap_mmap(void *addr, size_t len, int prot, int flags, int fd, off_t off)
{
    Stream *st = g_in_call ? fd_get(fd) : NULL;
    if (!st) return __real_mmap(addr, len, prot, flags, fd, off);
    if (st->f->kind == 'p' || st->f->kind == 'd' || st->f->kind == 'D') { errno = ENODEV; return MAP_FAILED; }     /* pipes and directories cannot be mapped */
    if (len == 0 || off < 0) { errno = EINVAL; return MAP_FAILED; }
    /* a private copy in real anonymous memory (munmap works on it unchanged); bytes past the end of the file are zero */
    unsigned char *m = __real_mmap(NULL, len, PROT_READ | PROT_WRITE, MAP_PRIVATE | MAP_ANONYMOUS, -1, 0);
    if (m == MAP_FAILED) return m;
    if ((size_t)off < st->f->n) { size_t k = st->f->n - (size_t)off; if (k > len) k = len; memcpy(m, st->f->data + off, k); }
    g_probe[PR_FS_READS]++;
    return m;
}
ssize_t __real_pread(int fd, void *buf, size_t n, off_t off);
ssize_t __wrap_pread(int fd, void *buf, size_t n, off_t off)
{
    Stream *st = g_in_call ? fd_get(fd) : NULL;
    if (!st) return __real_pread(fd, buf, n, off);
    if (st->f->kind == 'p') { errno = ESPIPE; return -1; }
    size_t save = st->pos; st->pos = (size_t)off;
    ssize_t r = ck_read(st, buf, n);
    st->pos = save;
    return r;
}
FILE *__real_fdopen(int fd, const char *mode);
FILE *__wrap_fdopen(int fd, const char *mode)
{
    Stream *st = g_in_call ? fd_get(fd) : NULL;
    if (!st) {
        if (g_in_call && fd == 0 && g_stdin_stream && mode[0] == 'r') return g_stdin_stream->fp;
        return __real_fdopen(fd, mode);
    }
    cookie_io_functions_t io = { st->mode ? NULL : ck_read, st->mode ? ck_write : NULL, ck_seek, ck_close };
    FILE *fp = fopencookie(st, st->mode ? "w" : "r", io);
    if (fp) { st->fp = fp; st->fd_only = 0; }
    return fp;
}

/* ---- name-space operations: a change of kalign that writes to a temporary name and renames it, or removes a
   half-written output, meets the simulated files and not the real disk */
int __real_unlink(const char *path);
int __wrap_unlink(const char *path)
{
    if (!g_in_call) return __real_unlink(path);
    SFile *f = sf_find(path);
    int err = 0;
    if (!f || f->kind == '?') { errno = ENOENT; return -1; }
    if (f->kind == 'd' || f->kind == 'D') { errno = EISDIR; return -1; }
    if (!parent_ok(path, &err)) { errno = err; return -1; }
    f->kind = '?'; f->n = 0; f->written = 0;
    return 0;
}
int __real_remove(const char *path);
int __wrap_remove(const char *path) { if (!g_in_call) return __real_remove(path); return __wrap_unlink(path); }
int __real_rename(const char *from, const char *to);
int __wrap_rename(const char *from, const char *to)
{
    if (!g_in_call) return __real_rename(from, to);
    SFile *f = sf_find(from);
    int err = 0;
    if (!f || f->kind == '?') { errno = ENOENT; return -1; }
    if (f->kind == 'd' || f->kind == 'D') { errno = EINVAL; return -1; }      /* directories are not moved in this model */
    SFile *t = sf_find(to);
    if (t && (t->kind == 'd' || t->kind == 'D')) { errno = EISDIR; return -1; }
    if (t && t->openw_err) { errno = t->openw_err; g_probe[PR_FS_OPEN_FAULTS]++; return -1; }
    if (!parent_ok(to, &err)) { errno = err; return -1; }
    if (!t) t = sf_new(to, 'f');
    sim_xfree(t->data);
    t->data = f->data; t->n = f->n; t->cap = f->cap; t->kind = f->kind == 'p' ? 'f' : f->kind; t->written = 1;
    f->data = NULL; f->n = 0; f->cap = 0; f->kind = '?'; f->written = 0;
    return 0;
}
int __real_lstat(const char *path, struct stat *st);
int __wrap_lstat(const char *path, struct stat *st) { if (!g_in_call) return __real_lstat(path, st); return __wrap_stat(path, st); }

/* ------------------------------------------------------------------ std stream swapping */

void simfs_begin_call(void)
{
    g_real_stdin = stdin; g_real_stdout = stdout; g_real_stderr = stderr;
    g_stdin_file.path = NULL; g_stdout_file.path = NULL; g_stderr_file.path = NULL;
    if (!g_sim_stdin) {
        /* after kalign fclose()d stdin, later reads see a dead descriptor (EBADF) rather than freed memory */
        if (g_stdin_closed_by_kalign) { g_stdin_kind = 1; g_stdin_closed_by_kalign = 0; g_probe[PR_FS_READ_FAULTS] += 0; }
        g_sim_stdin = open_stream(&g_stdin_file, 0, 1);
    }
    if (!g_sim_stdout) { g_sim_stdout = open_stream(&g_stdout_file, 1, 2); setvbuf(g_sim_stdout, NULL, _IOFBF, 4096); }
    if (!g_sim_stderr) { g_sim_stderr = open_stream(&g_stderr_file, 1, 3); setvbuf(g_sim_stderr, NULL, _IONBF, 0); }
    stdin = g_sim_stdin;
    stdout = g_sim_stdout; stderr = g_sim_stderr;
    g_in_call = 1;
}

void simfs_end_call(void)
{
    g_in_call = 0;
    fflush(g_sim_stdout); fflush(g_sim_stderr);
    stdin = g_real_stdin; stdout = g_real_stdout; stderr = g_real_stderr;
    if (g_stdin_closed_by_kalign) g_sim_stdin = NULL;
}

/* called at the end of a plan */
void simfs_close_std(void)
{
    if (g_sim_stdin && !g_stdin_closed_by_kalign) fclose(g_sim_stdin);
    g_sim_stdin = NULL;
    if (g_sim_stdout) fclose(g_sim_stdout);
    if (g_sim_stderr) fclose(g_sim_stderr);
    g_sim_stdout = g_sim_stderr = NULL;
}

int simfs_stdin_closed(void) { return g_stdin_closed_by_kalign; }
unsigned simfs_open_streams(void) { return g_open_streams; }

static void emit_hex(FILE *o, const unsigned char *p, size_t n)
{
    static const char hx[] = "0123456789abcdef";
    if (!n) { fputc('-', o); return; }
    for (size_t i = 0; i < n; i++) { fputc(hx[p[i] >> 4], o); fputc(hx[p[i] & 15], o); }
}

/* emit and clear what was written since the previous op */
void simfs_emit_outputs(FILE *o, int opidx)
{
    if (g_sim_stdout) fflush(g_sim_stdout);
    if (g_stdout_file.n) { fprintf(o, "o %d stdout ", opidx); emit_hex(o, g_stdout_file.data, g_stdout_file.n); fputc('\n', o); g_stdout_file.n = 0; }
    if (g_stderr_file.n) { fprintf(o, "o %d stderr ", opidx); emit_hex(o, g_stderr_file.data, g_stderr_file.n); fputc('\n', o); g_stderr_file.n = 0; }
    for (SFile *f = g_files; f; f = f->next) if (f->written) {
        /* the path goes over the line protocol in hex: a file name may hold blanks ("--out ' '") */
        fprintf(o, "o %d filex:", opidx); emit_hex(o, (const unsigned char *)f->path, strlen(f->path)); fputc(' ', o); emit_hex(o, f->data, f->n); fputc('\n', o);
        f->written = 0;
    }
}
