/* hooks: handler for the KALIGN_VERIF events.
 *   - event log (rolling hash + optional text log; pointers mapped to dense ids in first-seen order)
 *   - online ordering invariants (C02, second sentence)
 *   - node-completion snapshots and final projection check (C10)
 *   - reach probes
 *   - events are scheduling points (simomp_hook_yield)
 */
#include <stdlib.h>
#include <string.h>
#include <stdarg.h>
#include "sim.h"
#include "msa_struct.h"
#include "kalign_verif.h"

#ifdef KALIGN_VERIF
void (*kalign_verif_cb)(int kind, const void *obj, int a, int b, int c);
int (*kalign_verif_unusual_cb)(int site, long key);
#endif

int g_hooks_log_on;
int g_c10_on = 1;
static uint64_t g_evhash, g_evcount;

/* ---- text log (replay/debug) */
typedef struct { uint64_t seq; int kind, fiber, oid, a, b, c; } EvRec;
static EvRec *g_log; static size_t g_log_n, g_log_cap;

/* ---- pointer -> state map */
typedef struct {
    const void *p; int id;
    /* aln_mem state */
    int fwd_active, bwd_active, fwd_done, bwd_done, meet_active;
    int fwd_fiber, bwd_fiber, first_half; /* first_half: 1 fwd began first, 2 bwd began first */
    /* kmeans slot state */
    int split_active, split_done, split_fiber;
    int km_entered, km_left;
} PState;
static PState *g_ps; static size_t g_ps_cap, g_ps_n;

static size_t hp(const void *p) { uint64_t x = (uint64_t)(uintptr_t)p; x ^= x >> 33; x *= 0xff51afd7ed558ccdULL; x ^= x >> 33; return (size_t)x; }

static PState *ps_get(const void *p)
{
    if ((g_ps_n + 1) * 2 > g_ps_cap) {
        size_t ncap = g_ps_cap ? g_ps_cap * 2 : 1024;
        PState *old = g_ps; size_t ocap = g_ps_cap;
        g_ps = sim_xcalloc(ncap, sizeof *g_ps); g_ps_cap = ncap;
        for (size_t i = 0; i < ocap; i++) if (old[i].p) { size_t j = hp(old[i].p) & (ncap - 1); while (g_ps[j].p) j = (j + 1) & (ncap - 1); g_ps[j] = old[i]; }
        sim_xfree(old);
    }
    size_t j = hp(p) & (g_ps_cap - 1);
    while (g_ps[j].p) { if (g_ps[j].p == p) return &g_ps[j]; j = (j + 1) & (g_ps_cap - 1); }
    g_ps[j].p = p; g_ps[j].id = (int)g_ps_n++;
    return &g_ps[j];
}

/* ---- per-run (msa) merge state */
typedef struct { uint64_t hash; int nmem; int *mem; int *rk; } Snap;
static const struct msa *g_run_msa;
static unsigned char *g_node_done;   /* per profile index */
static Snap *g_snap;                 /* per profile index */
static int g_run_nprof, g_run_numseq;
static int g_merges_active;
static int g_splits_active;
uint64_t g_c10_nodes_checked, g_c10_nodes_skipped;

static uint64_t mix(uint64_t h, uint64_t v) { h ^= v + 0x9E3779B97F4A7C15ULL + (h << 6) + (h >> 2); return h * 0x100000001B3ULL; }

static void viol(const char *cls, const char *fmt, ...)
{
    char buf[512];
    va_list ap; va_start(ap, fmt); vsnprintf(buf, sizeof buf, fmt, ap); va_end(ap);
    sim_note_violation(cls, "%s", buf);
}

/* canonical hash of the sub-alignment of node c as it is now: for each member (in sip order) its rank
   and the column of each residue after removing the columns that are gaps in all members */
static uint64_t node_projection_hash(const struct msa *msa, const int *mem, int n)
{
    long L = 0;
    uint64_t h = 0xcbf29ce484222325ULL;
    if (n <= 0 || !mem) return 0;
    {
        const struct msa_seq *s = msa->sequences[mem[0]];
        for (int j = 0; j <= s->len; j++) L += s->gaps[j];
        L += s->len;
    }
    /* occupied-column bitmap over the widest member row */
    for (int i = 0; i < n; i++) {
        const struct msa_seq *s = msa->sequences[mem[i]];
        long l = s->len; for (int j = 0; j <= s->len; j++) l += s->gaps[j];
        if (l > L) L = l;
    }
    unsigned char *occ = sim_xcalloc((size_t)L + 1, 1);
    for (int i = 0; i < n; i++) {
        const struct msa_seq *s = msa->sequences[mem[i]];
        long col = 0;
        for (int j = 0; j < s->len; j++) { col += s->gaps[j]; occ[col] = 1; col++; }
    }
    int *rank = sim_xmalloc(((size_t)L + 1) * sizeof(int));
    int r = 0;
    for (long k = 0; k <= L; k++) { rank[k] = r; r += occ[k]; }
    for (int i = 0; i < n; i++) {
        const struct msa_seq *s = msa->sequences[mem[i]];
        long col = 0;
        h = mix(h, (uint64_t)s->rank + 0x1000000ULL);
        h = mix(h, (uint64_t)s->len);
        for (int j = 0; j < s->len; j++) { col += s->gaps[j]; h = mix(h, (uint64_t)rank[col]); col++; }
    }
    h = mix(h, (uint64_t)r);
    sim_xfree(occ); sim_xfree(rank);
    return h;
}

static void run_begin(const struct msa *msa)
{
    if (g_snap) for (int i = 0; i <= g_run_nprof; i++) { sim_xfree(g_snap[i].mem); sim_xfree(g_snap[i].rk); }
    sim_xfree(g_node_done); sim_xfree(g_snap);
    g_run_msa = msa; g_run_nprof = msa->num_profiles; g_run_numseq = msa->numseq;
    g_node_done = sim_xcalloc((size_t)g_run_nprof + 1, 1);
    g_snap = sim_xcalloc((size_t)g_run_nprof + 1, sizeof *g_snap);
    g_merges_active = 0;
}

static void run_end(const struct msa *msa)
{
    if (msa != g_run_msa || !g_c10_on) return;
    for (int c = msa->numseq; c < g_run_nprof; c++) {
        if (!g_snap[c].nmem) continue;
        /* project the final alignment onto the members the node had when it was completed */
        uint64_t h = node_projection_hash(msa, g_snap[c].mem, g_snap[c].nmem);
        g_c10_nodes_checked++;
        if (h != g_snap[c].hash)
            viol("C10_REALIGNED", "node %d: sub-alignment of its %d members differs from the snapshot taken at completion", c, g_snap[c].nmem);
    }
}

/* The same projection computed from the rows kalign finally hands out (the gapped strings made by
   finalise_alignment / returned by kalign()), so that the rendering step is inside the check:
   rowbyrank[r] is the row of the sequence with rank r (NULL if there is none), alen its length. */
void hooks_c10_final_rows(char **rowbyrank, int nrank, long alen)
{
    if (!g_c10_on || !g_snap || alen <= 0) return;
    unsigned char *occ = sim_xmalloc((size_t)alen + 1);
    int *crank = sim_xmalloc(((size_t)alen + 1) * sizeof(int));
    for (int c = g_run_numseq; c < g_run_nprof; c++) {
        Snap *sn = &g_snap[c];
        if (!sn->nmem || !sn->rk) continue;
        int ok = 1;
        for (int i = 0; i < sn->nmem; i++) if (sn->rk[i] < 0 || sn->rk[i] >= nrank || !rowbyrank[sn->rk[i]]) ok = 0;
        if (!ok) continue;       /* rows not addressable by rank (should not happen) */
        memset(occ, 0, (size_t)alen + 1);
        for (int i = 0; i < sn->nmem; i++) { const char *row = rowbyrank[sn->rk[i]]; for (long k = 0; k < alen; k++) if (row[k] != '-') occ[k] = 1; }
        int r = 0;
        for (long k = 0; k <= alen; k++) { crank[k] = r; r += occ[k]; }
        uint64_t h = 0xcbf29ce484222325ULL;
        for (int i = 0; i < sn->nmem; i++) {
            const char *row = rowbyrank[sn->rk[i]];
            long len = 0; for (long k = 0; k < alen; k++) if (row[k] != '-') len++;
            h = mix(h, (uint64_t)sn->rk[i] + 0x1000000ULL);
            h = mix(h, (uint64_t)len);
            for (long k = 0; k < alen; k++) if (row[k] != '-') h = mix(h, (uint64_t)crank[k]);
        }
        h = mix(h, (uint64_t)r);
        g_probe[PR_C10_ROWS_CHECKED]++;
        if (h != sn->hash)
            viol("C10_REALIGNED_IN_OUTPUT", "node %d: the rows handed out for its %d members, without their common gap columns, differ from the sub-alignment snapshotted at completion", c, sn->nmem);
    }
    sim_xfree(occ); sim_xfree(crank);
}

static void log_event(int kind, int oid, int a, int b, int c)
{
    int fib = simomp_cur_fiber();
    g_evcount++;
    g_evhash = mix(g_evhash, ((uint64_t)kind << 56) ^ ((uint64_t)fib << 44) ^ ((uint64_t)(unsigned)a << 24) ^ ((uint64_t)(unsigned)b << 12) ^ (uint64_t)(unsigned)c);
    /* object ids are NOT hashed: they depend on address reuse by the allocator */
    if (g_hooks_log_on == 1 || (g_hooks_log_on == 2 && (kind == KV_MERGE_BEGIN || kind == KV_MERGE_END))) {     /* evlog 2: merges only (tree shape probes) */
        if (g_log_n == g_log_cap) { g_log_cap = g_log_cap ? g_log_cap * 2 : 4096; g_log = sim_xrealloc(g_log, g_log_cap * sizeof *g_log); }
        EvRec *e = &g_log[g_log_n++];
        e->seq = g_evcount; e->kind = kind; e->fiber = fib; e->oid = oid; e->a = a; e->b = b; e->c = c;
    }
}

static void handler(int kind, const void *obj, int a, int b, int c)
{
    PState *ps = NULL;
    int oid = 0;
    int fib = simomp_cur_fiber();
    switch (kind) {
    case KV_RUN_BEGIN: run_begin(obj); break;
    case KV_RUN_END: break;
    case KV_MERGE_BEGIN: case KV_MERGE_END: oid = c; break;
    default: ps = ps_get(obj); oid = ps->id; break;
    }
    log_event(kind, oid, a, b, c);

    switch (kind) {
    case KV_RUN_END: run_end(obj); break;
    case KV_MERGE_BEGIN: {
        const struct msa *msa = obj;
        g_probe[PR_MERGES]++;
        if (msa == g_run_msa) {
            if (a >= g_run_numseq && a < g_run_nprof && !g_node_done[a]) viol("C02_MERGE_BEFORE_CHILD", "merge into node %d began before its child %d was complete", c, a);
            if (b >= g_run_numseq && b < g_run_nprof && !g_node_done[b]) viol("C02_MERGE_BEFORE_CHILD", "merge into node %d began before its child %d was complete", c, b);
        }
        g_merges_active++;
        if ((uint64_t)g_merges_active > g_probe[PR_MERGES_CONCURRENT]) g_probe[PR_MERGES_CONCURRENT] = (uint64_t)g_merges_active;
    } break;
    case KV_MERGE_END: {
        const struct msa *msa = obj;
        g_merges_active--;
        if (msa == g_run_msa && c >= 0 && c < g_run_nprof) {
            g_node_done[c] = 1;
            if (g_c10_on) {
                long work = 0;
                for (int i = 0; i < msa->nsip[c]; i++) work += msa->sequences[msa->sip[c][i]]->len;
                if (work > 4000000) g_c10_nodes_skipped++;
                else if (msa->nsip[c] > 0 && msa->sip[c]) {
                    int n = msa->nsip[c];
                    sim_xfree(g_snap[c].mem);
                    g_snap[c].mem = sim_xmalloc((size_t)n * sizeof(int));
                    memcpy(g_snap[c].mem, msa->sip[c], (size_t)n * sizeof(int));
                    g_snap[c].nmem = n;
                    sim_xfree(g_snap[c].rk);
                    g_snap[c].rk = sim_xmalloc((size_t)n * sizeof(int));
                    for (int i = 0; i < n; i++) g_snap[c].rk[i] = msa->sequences[msa->sip[c][i]]->rank;
                    g_snap[c].hash = node_projection_hash(msa, g_snap[c].mem, n);
                }
            }
        }
    } break;
    case KV_FWD_BEGIN:
        g_probe[PR_DP_STEPS]++;
        ps->fwd_active++; ps->fwd_fiber = fib;
        if (!ps->first_half) ps->first_half = 1;
        if (ps->bwd_active) g_probe[PR_FWD_BWD_OVERLAP]++;
        if (ps->meet_active) viol("C02_HALF_DURING_MEETUP", "forward half started while the meetup of the same step was running");
        break;
    case KV_FWD_END: ps->fwd_active--; ps->fwd_done++; break;
    case KV_BWD_BEGIN:
        ps->bwd_active++; ps->bwd_fiber = fib;
        if (!ps->first_half) { ps->first_half = 2; g_probe[PR_BWD_BEFORE_FWD]++; }
        if (ps->fwd_active) g_probe[PR_FWD_BWD_OVERLAP]++;
        if (ps->meet_active) viol("C02_HALF_DURING_MEETUP", "backward half started while the meetup of the same step was running");
        break;
    case KV_BWD_END: ps->bwd_active--; ps->bwd_done++; break;
    case KV_MEET_BEGIN:
        if (ps->fwd_active || ps->bwd_active || ps->fwd_done < 1 || ps->bwd_done < 1)
            viol("C02_MEETUP_BEFORE_HALVES", "meetup began with forward %s and backward %s",
                 ps->fwd_active ? "running" : (ps->fwd_done ? "done" : "not started"),
                 ps->bwd_active ? "running" : (ps->bwd_done ? "done" : "not started"));
        if (ps->fwd_done && ps->bwd_done && ps->fwd_fiber != ps->bwd_fiber) g_probe[PR_FWD_BWD_DIFF_THREAD]++;
        ps->fwd_done = ps->bwd_done = 0; ps->first_half = 0;
        ps->meet_active = 1;
        break;
    case KV_MEET_END: ps->meet_active = 0; break;
    case KV_SPLIT_BEGIN:
        ps->split_active++; ps->split_fiber = fib;
        g_splits_active++;
        if (g_splits_active > 1) g_probe[PR_SPLITS_OVERLAP]++;
        break;
    case KV_SPLIT_END: ps->split_active--; ps->split_done++; g_splits_active--; break;
    case KV_REDUCE_BEGIN: {
        int f0 = -1, diff = 0;
        g_probe[PR_KM_ROUNDS]++;
        for (int k = 0; k < 4; k++) {
            PState *q = ps_get((const char *)obj + (size_t)k * sizeof(void *));
            if (q->split_active || q->split_done < 1)
                viol("C02_REDUCE_BEFORE_SPLIT", "k-means reduction began with split %d %s", k, q->split_active ? "running" : "not finished");
            q->split_done = 0;
            if (f0 < 0) f0 = q->split_fiber; else if (q->split_fiber != f0) diff = 1;
        }
        if (diff) g_probe[PR_SPLITS_DIFF_THREAD]++;
    } break;
    case KV_DIST_CELL: { uint64_t n = (uint64_t)simomp_team_size(); if (n > g_probe[PR_DIST_THREADS]) g_probe[PR_DIST_THREADS] = n; } break;
    case KV_KM_ENTER: g_probe[PR_KM_NODES]++; ps->km_entered = 1; ps->km_left = 0; break;
    case KV_KM_LEAVE: ps->km_left = 1; break;
    case KV_KM_JOIN:
        if (!ps->km_entered || !ps->km_left) viol("C02_JOIN_BEFORE_CHILD", "k-means node joined before its %s subtree was built", a ? "right" : "left");
        ps->km_entered = 0;
        break;
    default: break;
    }
    if (kind == KV_FWD_BEGIN || kind == KV_BWD_BEGIN || kind == KV_SPLIT_BEGIN || kind == KV_MERGE_BEGIN || kind == KV_MEET_BEGIN || kind == KV_KM_ENTER || kind == KV_DIST_CELL)
        simomp_preempt_soon();
    simomp_hook_yield();
}

void hooks_on_switch(void)
{
    if (g_merges_active >= 1) g_probe[PR_MERGE_PREEMPTED]++;
}

/* cooperative unusual-branch points: a pure function of (job seed, site, key), so the sequential reference and every
   schedule of one job take the same side at the same place */
static int unusual(int site, long key)
{
    if (!W.unusual_seed) return 0;
    uint64_t h = mix(mix(W.unusual_seed, (uint64_t)site), (uint64_t)key);
    if ((h >> 17) & 1) { g_probe[PR_UNUSUAL_TAKEN]++; return 1; }
    return 0;
}

void hooks_install(void)
{
#ifdef KALIGN_VERIF
    kalign_verif_cb = handler;
    kalign_verif_unusual_cb = unusual;
#else
    (void)handler;
#endif
}

void hooks_reset(void)
{
    g_evhash = 0xcbf29ce484222325ULL; g_evcount = 0; g_log_n = 0;
    if (g_ps) memset(g_ps, 0, g_ps_cap * sizeof *g_ps);
    g_ps_n = 0;
    g_run_msa = NULL; g_merges_active = 0; g_splits_active = 0;
    g_c10_nodes_checked = g_c10_nodes_skipped = 0;
}

uint64_t hooks_event_hash(void) { return g_evhash; }
uint64_t hooks_event_count(void) { return g_evcount; }

static const char *kname(int k)
{
    static const char *n[] = {"?","RUN_BEGIN","RUN_END","MERGE_BEGIN","MERGE_END","FWD_BEGIN","FWD_END","BWD_BEGIN","BWD_END","MEET_BEGIN","MEET_END",
        "SPLIT_BEGIN","SPLIT_END","REDUCE_BEGIN","KM_ENTER","KM_LEAVE","KM_JOIN","DIST_CELL"};
    return k >= 0 && k <= 17 ? n[k] : "?";
}

void hooks_emit_log(FILE *f, int max)
{
    size_t from = g_log_n > (size_t)max ? g_log_n - (size_t)max : 0;
    for (size_t i = from; i < g_log_n; i++) {
        EvRec *e = &g_log[i];
        fprintf(f, "e %llu t%d %s obj%d %d %d %d\n", (unsigned long long)e->seq, e->fiber, kname(e->kind), e->oid, e->a, e->b, e->c);
    }
}
