/* simrun driver: reads plans on stdin, executes them against the real kalign code inside the
 * simulated world, writes one result block per plan on stdout.  See DESIGN.md section 2.5. */
#define _GNU_SOURCE
#include <stdio.h>
#include <stdlib.h>
#include <string.h>
#include <stdarg.h>
#include <errno.h>
#include <setjmp.h>
#include <signal.h>
#include <unistd.h>
#include <ucontext.h>
#include <sys/mman.h>
#include <execinfo.h>
#include <getopt.h>
#include "sim.h"
#include "kalign/kalign.h"
#include "msa_struct.h"

#if defined(__SANITIZE_ADDRESS__) || defined(SIM_ASAN_BUILD)
#include <sanitizer/common_interface_defs.h>
#include <sanitizer/lsan_interface.h>
#define SIM_ASAN 1
__attribute__((used)) const char *__asan_default_options(void) { return "exitcode=77:detect_leaks=0:abort_on_error=0:allocator_may_return_null=1:detect_stack_use_after_return=0:handle_segv=1"; }
__attribute__((used)) const char *__ubsan_default_options(void) { return "print_stacktrace=1:halt_on_error=1:exitcode=77"; }
#endif
#include <valgrind/valgrind.h>

extern int kalign_cli_main(int argc, char *argv[]);
extern int finalise_alignment(struct msa *msa);
extern jmp_buf g_exit_jmp; extern int g_exit_armed, g_exit_code;
extern void simfs_close_std(void);
extern int simfs_stdin_closed(void);
extern unsigned simfs_open_streams(void);
extern uint64_t g_c10_nodes_checked, g_c10_nodes_skipped;
extern int g_c10_on;
extern void tsan_shared_reset(void) __attribute__((weak));
extern uint64_t *g_preempt_trace; extern size_t g_preempt_trace_n;

sim_world W;
FILE *g_out;
static int g_outfd = 1;
static char g_plan_id[128] = "-";
static int g_nviol;
static int g_wall_limit = 60;
static int g_emit_trace = 0;
static int g_stop_on_fail = 0, g_failed = 0;
static int g_slot_guard = 0;
static int g_read_fail_keeps = 0;

/* ------------------------------------------------------------------ verdict plumbing */

void sim_note_violation(const char *cls, const char *fmt, ...)
{
    char buf[600];
    va_list ap; va_start(ap, fmt); vsnprintf(buf, sizeof buf, fmt, ap); va_end(ap);
    g_nviol++;
    if (g_nviol <= 20) { fprintf(g_out, "v %s %s\n", cls, buf); fflush(g_out); }
}

static void emit_trace(void)
{
    fprintf(g_out, "tr %zu", g_trace_n);
    for (size_t i = 0; i < g_trace_n; i++) fprintf(g_out, " %u:%u:%u", g_trace[i].kind, g_trace[i].nalt, g_trace[i].choice);
    fprintf(g_out, "\npt %zu", g_preempt_trace_n);
    for (size_t i = 0; i < g_preempt_trace_n; i++) fprintf(g_out, " %llu", (unsigned long long)g_preempt_trace[i]);
    fputc('\n', g_out);
}

static int g_dying;
static void death_dump(void)
{
    /* best effort: the schedule taken so far, so that a crash can be replayed from explicit decisions */
    if (g_dying++) return;
    if (g_emit_trace && g_sim_active) { fputc('\n', g_out); emit_trace(); fflush(g_out); }
}

void sim_fatal(const char *verdict, const char *fmt, ...)
{
    char buf[600];
    va_list ap; va_start(ap, fmt); vsnprintf(buf, sizeof buf, fmt, ap); va_end(ap);
    death_dump();
    fprintf(g_out, "fatal %s %s\ndone %s FATAL\n", verdict, buf, g_plan_id);
    fflush(g_out);
    _exit(3);
}

/* The watchdog separates "no progress" (a hang: TIMEOUT) from "slow but progressing" (heavily preempted
   or large runs: allowed to go on, up to a hard cap after which the run is given up as SLOW, which is
   never a violation). */
static uint64_t g_last_progress;
static int g_ticks;
static uint64_t progress_signature(void)
{
    return hooks_event_count() + g_accesses + g_steps + g_probe[PR_ALLOCS] + g_probe[PR_FS_READS] + g_probe[PR_FS_WRITES] + g_probe[PR_CLOCK_READS];
}

static void sig_handler(int sig)
{
    char b[256];
    if (sig == SIGALRM) {
        uint64_t p = progress_signature();
        if (p != g_last_progress && ++g_ticks < 12) { g_last_progress = p; alarm((unsigned)g_wall_limit); return; }
        if (p != g_last_progress) {
            int n0 = snprintf(b, sizeof b, "\nfatal SLOW still progressing after %d s, given up\ndone %s FATAL\n", g_ticks * g_wall_limit, g_plan_id);
            if (g_out) fflush(g_out);
            if (write(g_outfd, b, (size_t)n0) < 0) { }
            _exit(6);
        }
    }
    int n = snprintf(b, sizeof b, "\nfatal SIGNAL %d %s\ndone %s FATAL\n", sig, sig == SIGALRM ? "wall-clock watchdog: no progress" : "signal in kalign code", g_plan_id);
    if (g_out) { death_dump(); fflush(g_out); }
    if (write(g_outfd, b, (size_t)n) < 0) { }
    if (sig != SIGALRM) { void *bt[48]; int k = backtrace(bt, 48); backtrace_symbols_fd(bt, k, 2); }
    _exit(sig == SIGALRM ? 5 : 4);
}

/* ------------------------------------------------------------------ helpers */

static int hexval(int c) { return c <= '9' ? c - '0' : (c | 32) - 'a' + 10; }

static unsigned char *unhex(const char *s, size_t *n)
{
    if (!s || !strcmp(s, "-")) { *n = 0; unsigned char *p = sim_xmalloc(1); p[0] = 0; return p; }
    size_t l = strlen(s) / 2;
    unsigned char *p = sim_xmalloc(l + 1);
    for (size_t i = 0; i < l; i++) p[i] = (unsigned char)(hexval(s[2*i]) << 4 | hexval(s[2*i+1]));
    p[l] = 0; *n = l;
    return p;
}

static void emit_hex(FILE *o, const void *v, size_t n)
{
    static const char hx[] = "0123456789abcdef";
    const unsigned char *p = v;
    if (!n) { fputc('-', o); return; }
    for (size_t i = 0; i < n; i++) { fputc(hx[p[i] >> 4], o); fputc(hx[p[i] & 15], o); }
}

static char *g_line; static size_t g_line_cap;
static char **g_tok; static size_t g_ntok, g_tok_cap;

static int read_line(void)
{
    ssize_t n = getline(&g_line, &g_line_cap, stdin);
    if (n < 0) return 0;
    while (n > 0 && (g_line[n-1] == '\n' || g_line[n-1] == '\r')) g_line[--n] = 0;
    g_ntok = 0;
    char *p = g_line;
    while (*p) {
        while (*p == ' ') p++;
        if (!*p) break;
        if (g_ntok == g_tok_cap) { g_tok_cap = g_tok_cap ? g_tok_cap * 2 : 64; g_tok = sim_xrealloc(g_tok, g_tok_cap * sizeof *g_tok); }
        g_tok[g_ntok++] = p;
        while (*p && *p != ' ') p++;
        if (*p) *p++ = 0;
    }
    return 1;
}

/* ------------------------------------------------------------------ plan storage */

typedef struct { char **tok; size_t ntok; } OpLine;
static OpLine *g_ops; static size_t g_nops, g_ops_cap;

static void store_op(void)
{
    if (g_nops == g_ops_cap) { g_ops_cap = g_ops_cap ? g_ops_cap * 2 : 32; g_ops = sim_xrealloc(g_ops, g_ops_cap * sizeof *g_ops); }
    OpLine *o = &g_ops[g_nops++];
    o->ntok = g_ntok - 1;
    o->tok = sim_xmalloc((o->ntok + 1) * sizeof(char *));
    for (size_t i = 0; i < o->ntok; i++) { o->tok[i] = sim_xmalloc(strlen(g_tok[i+1]) + 1); strcpy(o->tok[i], g_tok[i+1]); }
}

static void free_ops(void)
{
    for (size_t i = 0; i < g_nops; i++) { for (size_t j = 0; j < g_ops[i].ntok; j++) sim_xfree(g_ops[i].tok[j]); sim_xfree(g_ops[i].tok); }
    g_nops = 0;
}

static void world_defaults(void)
{
    memset(&W, 0, sizeof W);
    W.nthreads_icv = 16; W.max_active_levels = 1; W.thread_limit = 64; W.team_fail_above = 32768;
    W.max_steps = 50000000ULL; W.junk_on = 1; W.junk_seed = 1; W.alloc_fail_at = -1;
    W.clock_epoch = 1700000000; W.clock_step = 0; W.explicit_decisions = 0;
    g_wall_limit = 60; g_emit_trace = 0; g_hooks_log_on = 0; g_c10_on = 1; g_stop_on_fail = 0; g_slot_guard = 0; g_read_fail_keeps = 0;
}

static void set_world(const char *k, const char *v)
{
    long long x = strtoll(v, NULL, 0);
    unsigned long long ux = strtoull(v, NULL, 0);
    if (!strcmp(k, "sched_seed")) W.sched_seed = ux;
    else if (!strcmp(k, "explicit")) W.explicit_decisions = (int)x;
    else if (!strcmp(k, "nthreads_icv")) W.nthreads_icv = (int)x;
    else if (!strcmp(k, "max_active_levels")) W.max_active_levels = (int)x;
    else if (!strcmp(k, "thread_limit")) W.thread_limit = (int)x < 1 ? 1 : (int)x;
    else if (!strcmp(k, "team_fail_above")) W.team_fail_above = (int)x;
    else if (!strcmp(k, "p_sb")) W.p_sb = (uint32_t)x;
    else if (!strcmp(k, "read_fail_keeps")) g_read_fail_keeps = (int)x;
    else if (!strcmp(k, "unusual_seed")) W.unusual_seed = (uint64_t)x;
    else if (!strcmp(k, "p_defer")) W.p_defer = (uint32_t)x;
    else if (!strcmp(k, "p_switch")) W.p_switch = (uint32_t)x;
    else if (!strcmp(k, "p_hook_yield")) W.p_hook_yield = (uint32_t)x;
    else if (!strcmp(k, "p_shortfall")) W.p_shortfall = (uint32_t)x;
    else if (!strcmp(k, "p_stall")) W.p_stall = (uint32_t)x;
    else if (!strcmp(k, "pick_order")) W.pick_order = (int)x;
    else if (!strcmp(k, "tw_descendants")) W.tw_descendants = (int)x;
    else if (!strcmp(k, "p_preempt")) W.p_preempt = (uint32_t)ux;
    else if (!strcmp(k, "p_burst")) W.p_burst = (uint32_t)x;
    else if (!strcmp(k, "p_shared")) W.p_shared = (uint32_t)x;
    else if (!strcmp(k, "burst_len")) W.burst_len = (uint32_t)x;
    else if (!strcmp(k, "max_steps")) W.max_steps = ux;
    else if (!strcmp(k, "junk_seed")) W.junk_seed = ux;
    else if (!strcmp(k, "junk_on")) W.junk_on = (int)x;
    else if (!strcmp(k, "alloc_fail_at")) W.alloc_fail_at = (long)x;
    else if (!strcmp(k, "clock_epoch")) W.clock_epoch = x;
    else if (!strcmp(k, "clock_step")) W.clock_step = (int)x;
    else if (!strcmp(k, "fs_seed")) W.fs_seed = ux;
    else if (!strcmp(k, "chunk_mode")) W.chunk_mode = (int)x;
    else if (!strcmp(k, "wall_limit")) g_wall_limit = (int)x;
    else if (!strcmp(k, "trace")) g_emit_trace = (int)x;
    else if (!strcmp(k, "evlog")) g_hooks_log_on = (int)x;
    else if (!strcmp(k, "c10")) g_c10_on = (int)x;
    else if (!strcmp(k, "stop_on_fail")) g_stop_on_fail = (int)x;
    else if (!strcmp(k, "slot_guard")) g_slot_guard = (int)x;
    else sim_fatal("HARNESS", "unknown world key %s", k);
}

/* ------------------------------------------------------------------ op execution */

#define NSLOT 8
static struct msa *g_slot[NSLOT];
static int g_slot_final[NSLOT];
static int g_slot_failed[NSLOT];

/* slot_guard: a caller that checks return codes only frees an object after a call on it failed */
static int slot_blocked(int idx, const char *op, int sl)
{
    if (!g_slot_guard || sl < 0 || sl >= NSLOT || !g_slot_failed[sl]) return 0;
    fprintf(g_out, "r %d %s rc=-777 skipped=1\n", idx, op);
    return 1;
}

static void enter(void) { simfs_begin_call(); g_sim_active = 1; }
static void leave(void) { g_sim_active = 0; simfs_end_call(); }

static float parse_f(const char *s) { return strtof(s, NULL); }

static void dump_msa(int idx, int sl)
{
    struct msa *m = g_slot[sl];
    if (!m) { fprintf(g_out, "r %d D rc=0 null=1\n", idx); return; }
    fprintf(g_out, "r %d D rc=0 null=0 numseq=%d biotype=%d aligned=%d alnlen=%d L=%d final=%d\n", idx, m->numseq, m->biotype, m->aligned, m->alnlen, m->L, g_slot_final[sl]);
    for (int i = 0; i < m->numseq; i++) {
        struct msa_seq *s = m->sequences[i];
        fprintf(g_out, "o %d seq%d ", idx, i);
        emit_hex(g_out, s->name, strlen(s->name));
        fprintf(g_out, " %d ", s->len);
        size_t bound = g_slot_final[sl] ? (size_t)m->alnlen : (size_t)s->len;
        emit_hex(g_out, s->seq, strnlen(s->seq, bound));
        fputc(' ', g_out);
        if (g_slot_final[sl]) fputc('-', g_out);
        else for (int j = 0; j <= s->len; j++) fprintf(g_out, "%s%d", j ? "," : "", s->gaps[j]);
        fputc('\n', g_out);
    }
}

static void exec_op(int idx, OpLine *o)
{
    const char *op = o->tok[0];
    if (g_stop_on_fail && g_failed && strcmp(op, "F") && strcmp(op, "L") && strcmp(op, "D")) {
        /* a caller that checks return codes does not go on after a failed call */
        fprintf(g_out, "r %d %s rc=-777 skipped=1\n", idx, op);
        return;
    }
    if (!strcmp(op, "A")) {
        /* A nthreads type gpo gpe tgpe n seqhex... */
        int nthreads = atoi(o->tok[1]), type = atoi(o->tok[2]);
        float gpo = parse_f(o->tok[3]), gpe = parse_f(o->tok[4]), tgpe = parse_f(o->tok[5]);
        int n = atoi(o->tok[6]);
        char **seqs = sim_xmalloc(sizeof(char *) * (size_t)(n + 1));
        int *lens = sim_xmalloc(sizeof(int) * (size_t)(n + 1));
        for (int i = 0; i < n; i++) {
            size_t l; unsigned char *raw = unhex(o->tok[7 + i], &l);
            seqs[i] = sim_xmalloc(l ? l : 1);      /* exact size: no terminator, the API takes lengths */
            memcpy(seqs[i], raw, l); lens[i] = (int)l; sim_xfree(raw);
        }
        char **aligned = NULL; int alen = 0;
        enter();
        int rc = kalign(seqs, lens, n, nthreads, type, gpo, gpe, tgpe, &aligned, &alen);
        leave();
        fprintf(g_out, "r %d A rc=%d alen=%d\n", idx, rc, alen);
        if (rc == 0 && aligned && alen > 0) {
            /* C10 on the rows the caller gets: with no zero-length input, row i is the sequence of rank i */
            int all = 1;
            for (int i = 0; i < n; i++) if (lens[i] <= 0) all = 0;
            if (all) hooks_c10_final_rows(aligned, n, alen);
        }
        if (rc == 0 && aligned) {
            /* kalign() returns one row per non-empty input sequence; the caller knows how many that is */
            int nout = 0;
            for (int i = 0; i < n; i++) if (lens[i] > 0) nout++;
            for (int i = 0; i < nout; i++) { fprintf(g_out, "o %d row%d ", idx, i); emit_hex(g_out, aligned[i], alen > 0 ? (size_t)alen : 0); fputc('\n', g_out); }   /* rows are out_aln_len long by contract (a residue byte may be NUL) */
            for (int i = 0; i < nout; i++) free(aligned[i]);
            free(aligned);
        }
        for (int i = 0; i < n; i++) sim_xfree(seqs[i]);
        sim_xfree(seqs); sim_xfree(lens);
    } else if (!strcmp(op, "R")) {
        int sl = atoi(o->tok[1]);
        if (slot_blocked(idx, op, sl)) return;
        size_t l; char *path = (char *)unhex(o->tok[2], &l); int quiet = atoi(o->tok[3]);
        enter();
        int rc = kalign_read_input(l ? path : NULL, &g_slot[sl], quiet);
        leave();
        g_slot_final[sl] = 0;
        fprintf(g_out, "r %d R rc=%d null=%d\n", idx, rc, g_slot[sl] == NULL);
        /* a refused source (another alphabet, unreadable file) leaves the collection as it was: with read_fail_keeps
           the caller goes on using the object it already had */
        int keep = g_read_fail_keeps && o->ntok > 4 && atoi(o->tok[4]);      /* only the reads the plan marks: an unexpected refusal ends the use of the object */
        if (rc != 0) { g_failed = 1; if (!(keep && g_slot[sl])) g_slot_failed[sl] = 1; }
        sim_xfree(path);
    } else if (!strcmp(op, "X")) {
        int sl = atoi(o->tok[1]);
        if (slot_blocked(idx, op, sl)) return;
        enter();
        int rc = kalign_run(g_slot[sl], atoi(o->tok[2]), atoi(o->tok[3]), parse_f(o->tok[4]), parse_f(o->tok[5]), parse_f(o->tok[6]));
        leave();
        if (rc == 0) g_slot_final[sl] = 1;
        if (rc == 0 && g_slot[sl] && g_slot[sl]->aligned == ALN_STATUS_FINAL && g_slot[sl]->alnlen > 0) {
            /* C10 on the finalised rows of the object (what every writer emits) */
            struct msa *m = g_slot[sl];
            int maxr = -1;
            for (int i = 0; i < m->numseq; i++) if (m->sequences[i]->rank > maxr) maxr = m->sequences[i]->rank;
            if (maxr >= 0 && maxr < 10000000) {
                char **byrank = sim_xcalloc((size_t)maxr + 1, sizeof(char *));
                int ok = 1;
                for (int i = 0; i < m->numseq; i++) {
                    int r = m->sequences[i]->rank;
                    if (r < 0 || byrank[r] || strnlen(m->sequences[i]->seq, (size_t)m->alnlen) != (size_t)m->alnlen) { ok = 0; break; }
                    byrank[r] = m->sequences[i]->seq;
                }
                if (ok) hooks_c10_final_rows(byrank, maxr + 1, m->alnlen);
                sim_xfree(byrank);
            }
        }
        fprintf(g_out, "r %d X rc=%d\n", idx, rc);
        if (rc != 0) { g_failed = 1; g_slot_failed[sl] = 1; }
    } else if (!strcmp(op, "W")) {
        int sl = atoi(o->tok[1]);
        if (slot_blocked(idx, op, sl)) return;
        size_t l, fl; char *path = (char *)unhex(o->tok[2], &l); char *fmt = (char *)unhex(o->tok[3], &fl);
        enter();
        int rc = kalign_write_msa(g_slot[sl], l ? path : NULL, fl ? fmt : NULL);
        leave();
        fprintf(g_out, "r %d W rc=%d\n", idx, rc);
        if (rc != 0) { g_failed = 1; g_slot_failed[sl] = 1; }
        sim_xfree(path); sim_xfree(fmt);
    } else if (!strcmp(op, "Z")) {
        int sl = atoi(o->tok[1]);
        int rc = -1;
        if (slot_blocked(idx, op, sl)) return;
        if (g_slot[sl] && g_slot[sl]->aligned == ALN_STATUS_ALIGNED) { enter(); rc = finalise_alignment(g_slot[sl]); leave(); if (rc == 0) g_slot_final[sl] = 1; }
        fprintf(g_out, "r %d Z rc=%d\n", idx, rc);
    } else if (!strcmp(op, "C")) {
        int a = atoi(o->tok[1]), b = atoi(o->tok[2]); float score = -1.0f;
        if (slot_blocked(idx, op, a) || slot_blocked(idx, op, b)) return;
        if (g_slot_guard && (!g_slot[a] || !g_slot[b])) { fprintf(g_out, "r %d C rc=-777 skipped=1\n", idx); return; }
        enter();
        int rc = kalign_msa_compare(g_slot[a], g_slot[b], &score);
        leave();
        if (rc == 0) { g_slot_final[a] = 1; g_slot_final[b] = 1; }
        else { g_slot_failed[a] = 1; g_slot_failed[b] = 1; }
        uint32_t bits; memcpy(&bits, &score, 4);
        fprintf(g_out, "r %d C rc=%d score=%.6f bits=%08x\n", idx, rc, (double)score, bits);
    } else if (!strcmp(op, "M") || !strcmp(op, "V")) {
        /* M slot rename unalign -> reformat_settings_msa ; V slot exit_on_error -> kalign_check_msa (both public API) */
        int sl = atoi(o->tok[1]);
        if (slot_blocked(idx, op, sl)) return;
        if (!g_slot[sl]) { fprintf(g_out, "r %d %s rc=-777 skipped=1\n", idx, op); return; }
        enter();
        int rc = op[0] == 'M' ? reformat_settings_msa(g_slot[sl], atoi(o->tok[2]), atoi(o->tok[3])) : kalign_check_msa(g_slot[sl], atoi(o->tok[2]));
        leave();
        fprintf(g_out, "r %d %s rc=%d\n", idx, op, rc);
        if (rc != 0) { g_failed = 1; g_slot_failed[sl] = 1; }
    } else if (!strcmp(op, "F")) {
        int sl = atoi(o->tok[1]);
        enter();
        kalign_free_msa(g_slot[sl]);
        leave();
        g_slot[sl] = NULL; g_slot_final[sl] = 0; g_slot_failed[sl] = 0;
        fprintf(g_out, "r %d F rc=0\n", idx);
    } else if (!strcmp(op, "D")) {
        if (slot_blocked(idx, op, atoi(o->tok[1]))) return;
        dump_msa(idx, atoi(o->tok[1]));
    } else if (!strcmp(op, "CLI")) {
        int n = atoi(o->tok[1]);
        char **argv = sim_xcalloc((size_t)n + 2, sizeof(char *));
        argv[0] = sim_xmalloc(8); strcpy(argv[0], "kalign");
        for (int i = 0; i < n; i++) { size_t l; argv[i + 1] = (char *)unhex(o->tok[2 + i], &l); }
        char **argv_copy = sim_xmalloc(sizeof(char *) * (size_t)(n + 2));
        memcpy(argv_copy, argv, sizeof(char *) * (size_t)(n + 2));  /* getopt permutes argv */
        volatile int rc;
        optind = 0; opterr = 1;
        enter();
        g_exit_armed = 1;
        if (setjmp(g_exit_jmp) == 0) rc = kalign_cli_main(n + 1, argv);
        else rc = g_exit_code;
        g_exit_armed = 0;
        leave();
        fprintf(g_out, "r %d CLI rc=%d\n", idx, rc);
        for (int i = 0; i <= n; i++) sim_xfree(argv_copy[i]);
        sim_xfree(argv); sim_xfree(argv_copy);
    } else if (!strcmp(op, "T")) {
        /* T nthreads n: self-test of the simulated OpenMP runtime under this plan's schedule (sim/omptest.c) */
        extern int sim_omp_selftest(int nthreads, int n, char *msg, size_t msglen);
        char msg[512];
        enter();
        int bad = sim_omp_selftest(atoi(o->tok[1]), atoi(o->tok[2]), msg, sizeof msg);
        leave();
        fprintf(g_out, "r %d T rc=%d msg=%s\n", idx, bad, bad ? msg : "-");
        if (bad) sim_note_violation("H_OMP_SELFTEST", "%s", msg);
    } else if (!strcmp(op, "T2")) {
        /* T2 nthreads: store-buffering litmus test; rc = 1 if both sides read 0 (possible only with the store-buffer model on) */
        extern int sim_omp_litmus_sb(int nthreads);
        enter();
        int both0 = sim_omp_litmus_sb(atoi(o->tok[1]));
        leave();
        fprintf(g_out, "r %d T2 rc=%d\n", idx, both0);
    } else if (!strcmp(op, "T3")) {
        /* T3 nthreads: threadprivate persistence test; rc = number of wrong observations (0 expected where TLS is modelled) */
        extern int sim_omp_tls_test(int nthreads);
        enter();
        int bad = sim_omp_tls_test(atoi(o->tok[1]));
        leave();
        fprintf(g_out, "r %d T3 rc=%d\n", idx, bad);
    } else if (!strcmp(op, "K")) {
        if (!strcmp(o->tok[1], "clock_jump")) simclock_jump(strtoll(o->tok[2], NULL, 0));
        else set_world(o->tok[1], o->tok[2]);
        fprintf(g_out, "r %d K rc=0\n", idx);
    } else if (!strcmp(op, "L")) {
        fprintf(g_out, "r %d L rc=0 live=%ld bytes=%zu streams=%u blocks=", idx, simalloc_live(), simalloc_live_bytes(), simfs_open_streams());
        simalloc_dump_live(g_out, 8);
        fputc('\n', g_out);
    } else sim_fatal("HARNESS", "unknown op %s", op);
    /* the watchdog times kalign code, not the transfer of (possibly many MB of) results to a busy orchestrator */
    alarm(0);
    simfs_emit_outputs(g_out, idx);
    alarm((unsigned)g_wall_limit);
}

static void run_plan(void)
{
    simomp_reset(); simclock_reset(); simalloc_reset(); hooks_reset();
    if (tsan_shared_reset) tsan_shared_reset();
    g_nviol = 0; g_failed = 0;
    g_last_progress = 0; g_ticks = 0;
    alarm((unsigned)g_wall_limit);
    for (size_t i = 0; i < g_nops; i++) exec_op((int)i, &g_ops[i]);
    alarm(0);
    simfs_close_std();
    fprintf(g_out, "ev %016llx %llu\n", (unsigned long long)hooks_event_hash(), (unsigned long long)hooks_event_count());
    if (g_emit_trace) emit_trace();
    if (g_hooks_log_on) hooks_emit_log(g_out, 100000);
    fprintf(g_out, "pb");
    for (int i = 0; i < PR__N; i++) if (g_probe[i]) fprintf(g_out, " %s=%llu", g_probe_name[i], (unsigned long long)g_probe[i]);
    fprintf(g_out, "\nst steps=%llu accesses=%llu decisions=%zu live=%ld c10_checked=%llu c10_skipped=%llu\n",
            (unsigned long long)g_steps, (unsigned long long)g_accesses, g_trace_n, simalloc_live(),
            (unsigned long long)g_c10_nodes_checked, (unsigned long long)g_c10_nodes_skipped);
    fprintf(g_out, "done %s %s\n", g_plan_id, g_nviol ? "VIOL" : "OK");
    fflush(g_out);
    for (int i = 0; i < NSLOT; i++) { g_slot[i] = NULL; g_slot_final[i] = 0; g_slot_failed[i] = 0; }
    simalloc_forget_all();
    simfs_reset();
    free_ops();
}

static void driver_loop(void)
{
    world_defaults();
    simfs_reset();
    while (read_line()) {
        if (!g_ntok) continue;
        const char *c = g_tok[0];
        if (!strcmp(c, "plan")) { world_defaults(); simfs_reset(); free_ops(); g_dec_n = 0; g_preempt_n = 0; snprintf(g_plan_id, sizeof g_plan_id, "%s", g_ntok > 1 ? g_tok[1] : "-"); }
        else if (!strcmp(c, "w")) set_world(g_tok[1], g_tok[2]);
        else if (!strcmp(c, "dec")) {
            size_t n = g_ntok - 1; g_dec = sim_xrealloc(g_dec, (n + 1) * sizeof *g_dec); g_dec_n = n;
            for (size_t i = 0; i < n; i++) g_dec[i] = (uint32_t)strtoul(g_tok[1 + i], NULL, 10);
        }
        else if (!strcmp(c, "pre")) {
            size_t n = g_ntok - 1; g_preempt_at = sim_xrealloc(g_preempt_at, (n + 1) * sizeof *g_preempt_at); g_preempt_n = n;
            for (size_t i = 0; i < n; i++) g_preempt_at[i] = strtoull(g_tok[1 + i], NULL, 10);
        }
        else if (!strcmp(c, "fs")) { size_t pl, n; char *p = (char *)unhex(g_tok[1], &pl); unsigned char *d = unhex(g_ntok > 3 ? g_tok[3] : "-", &n); simfs_add(p, g_tok[2][0], d, n); sim_xfree(p); sim_xfree(d); }
        else if (!strcmp(c, "fault")) { size_t pl; char *p = (char *)unhex(g_tok[1], &pl); simfs_fault(p, g_tok[2], atoi(g_tok[3]), g_ntok > 4 ? atol(g_tok[4]) : 0); sim_xfree(p); }
        else if (!strcmp(c, "stdin")) { size_t n; unsigned char *d = unhex(g_ntok > 2 ? g_tok[2] : "-", &n); simfs_set_stdin(g_tok[1], d, n); sim_xfree(d); }
        else if (!strcmp(c, "op")) store_op();
        else if (!strcmp(c, "run")) run_plan();
        else if (!strcmp(c, "quit")) break;
        else sim_fatal("HARNESS", "unknown directive %s", c);
    }
}

/* ------------------------------------------------------------------ root fiber bootstrap */

static ucontext_t g_main_uc, g_root_uc;
static void root_entry(void)
{
#ifdef SIM_ASAN
    __sanitizer_finish_switch_fiber(NULL, NULL, NULL);
#endif
    driver_loop();
    fflush(g_out);
#ifdef SIM_COVERAGE
    { extern void __gcov_dump(void); __gcov_dump(); }   /* vf/coverage.py builds only */
#endif
    _exit(0);
}

int main(int argc, char **argv)
{
    (void)argc; (void)argv;
    setenv("TZ", "UTC", 1); tzset();
    g_outfd = dup(1);
    g_out = fdopen(g_outfd, "w");
    setvbuf(g_out, NULL, _IOFBF, 1 << 16);
    /* anything kalign prints outside a simulated call must not reach the protocol channel */
    if (!freopen("/dev/null", "w", stdout)) return 2;

    static char altstack[1 << 16];
    stack_t ss = { .ss_sp = altstack, .ss_size = sizeof altstack, .ss_flags = 0 };
    sigaltstack(&ss, NULL);
    struct sigaction sa; memset(&sa, 0, sizeof sa);
    sa.sa_handler = sig_handler; sa.sa_flags = SA_ONSTACK | SA_RESTART;   /* a watchdog tick must not make a blocked write() of the result channel fail with EINTR (stdio would drop the data) */
    sigaction(SIGALRM, &sa, NULL);
#ifndef SIM_ASAN
    if (!RUNNING_ON_VALGRIND) { sigaction(SIGSEGV, &sa, NULL); sigaction(SIGBUS, &sa, NULL); sigaction(SIGFPE, &sa, NULL); sigaction(SIGABRT, &sa, NULL); sigaction(SIGILL, &sa, NULL); }
#else
    sigaction(SIGABRT, &sa, NULL);
#endif
    hooks_install();
#ifdef SIM_ASAN
    __sanitizer_set_death_callback(death_dump);
#endif

    /* the root fiber plays the program's main thread: 8 MB like the default RLIMIT_STACK (plus room for the simulator's
       own frames), with a guard below it; the ASan build keeps a generous stack (its frames are much larger) */
#ifdef SIM_ASAN
    size_t sz = (size_t)1 << 30;
#else
    size_t sz = ((size_t)8 << 20) + ((size_t)256 << 10);
#endif
    size_t guard = (size_t)64 << 10;
    char *stk0 = mmap(NULL, sz + guard, PROT_READ | PROT_WRITE, MAP_PRIVATE | MAP_ANONYMOUS | MAP_NORESERVE | MAP_STACK, -1, 0);
    if (stk0 == MAP_FAILED) { perror("mmap"); return 2; }
    mprotect(stk0, guard, PROT_NONE);
    void *stk = stk0 + guard;
    VALGRIND_STACK_REGISTER(stk, (char *)stk + sz);
    simomp_set_root_stack(stk, sz);
    getcontext(&g_root_uc);
    g_root_uc.uc_stack.ss_sp = stk; g_root_uc.uc_stack.ss_size = sz; g_root_uc.uc_link = NULL;
    makecontext(&g_root_uc, root_entry, 0);
#ifdef SIM_ASAN
    void *fake = NULL;
    __sanitizer_start_switch_fiber(&fake, stk, sz);
#endif
    swapcontext(&g_main_uc, &g_root_uc);
    return 0;
}
