/* Deterministic simulator for kalign: shared declarations.
 *
 * One OS thread.  Every source of nondeterminism kalign can observe is owned here:
 *   simomp   - OpenMP runtime (GOMP_* ABI) on fibers, seeded scheduler
 *   simfs    - fopen/stat/isatty/exit, stdin/stdout/stderr through fopencookie
 *   simclock - time()/clock()/times()
 *   simalloc - malloc family: junk fill, live-set accounting
 *   hooks    - KALIGN_VERIF event handler: event log, ordering invariants, C10 snapshots
 */
#ifndef SIM_H
#define SIM_H
#include <stddef.h>
#include <stdint.h>
#include <stdio.h>

/* ---------- raw allocator for simulator-internal memory (never junk-filled/accounted) */
void *sim_xmalloc(size_t n);
void *sim_xcalloc(size_t n, size_t m);
void *sim_xrealloc(void *p, size_t n);
void  sim_xfree(void *p);

/* ---------- rng */
typedef struct { uint64_t s; } sim_rng;
static inline uint64_t sim_splitmix(uint64_t *x){
    uint64_t z = (*x += 0x9E3779B97F4A7C15ULL);
    z = (z ^ (z >> 30)) * 0xBF58476D1CE4E5B9ULL;
    z = (z ^ (z >> 27)) * 0x94D049BB133111EBULL;
    return z ^ (z >> 31);
}
static inline uint64_t sim_rng_next(sim_rng *r){ return sim_splitmix(&r->s); }
static inline uint32_t sim_rng_below(sim_rng *r, uint32_t n){ return n <= 1 ? 0 : (uint32_t)(sim_rng_next(r) % n); }
/* probability in 1/65536 units */
static inline int sim_rng_chance(sim_rng *r, uint32_t p16){ return p16 && (sim_rng_next(r) & 0xFFFF) < p16; }

/* ---------- world configuration (set from the plan before each run) */
typedef struct {
    /* scheduler */
    uint64_t sched_seed;
    int      explicit_decisions;     /* 1: take decisions from dec[] (missing = 0); 0: draw from sched_seed */
    int      nthreads_icv;           /* initial nthreads-var (as OMP_NUM_THREADS / #cores would set it) */
    int      max_active_levels;      /* nesting ICV, libgomp default 1 */
    int      thread_limit;           /* team sizes are clipped to this (>=1) */
    int      team_fail_above;        /* a team request above this cannot be started by the runtime (thread creation failure); 0 = never */
    uint32_t p_defer;                /* /65536: deferred task is queued instead of run at once */
    uint32_t p_switch;               /* /65536: at a scheduling point, leave the current thread */
    uint32_t p_hook_yield;           /* /65536: hook events are scheduling points with this probability */
    uint32_t p_shortfall;            /* /65536: a parallel region gets fewer threads than asked */
    uint32_t p_stall;                /* /65536: at a switch, stall the thread being left for a while */
    int      pick_order;             /* 0 fifo, 1 lifo, 2 random */
    int      tw_descendants;         /* taskwait may run non-child descendants */
    uint32_t p_preempt;              /* /2^32 per instrumented access (preempt build only) */
    uint32_t p_sb;                   /* /65536: a relaxed/release atomic store goes to the virtual thread's store buffer first (x86-TSO model, preempt build) */
    uint32_t p_shared;               /* /65536 per access to a location that >= 2 virtual threads have touched (preempt build) */
    uint32_t p_burst;                /* /65536: a *_BEGIN event of a task body schedules a preemption within the next burst_len accesses */
    uint32_t burst_len;
    uint64_t max_steps;              /* scheduler decisions budget */
    /* allocator */
    uint64_t junk_seed;
    uint64_t unusual_seed;           /* cooperative unusual-branch points: 0 = never; else side = f(seed, site, key) - the same for every run of a job */
    int      junk_on;
    long     alloc_fail_at;          /* k-th kalign allocation returns NULL (-1 off) */
    /* clock */
    int64_t  clock_epoch;
    int      clock_step;             /* seconds added per read */
    /* file layer */
    uint64_t fs_seed;
    int      chunk_mode;             /* 0 whole, 1 tiny(1..7), 2 random, 3 line-ish */
} sim_world;
extern sim_world W;

/* ---------- decision trace */
typedef struct { uint8_t kind; uint16_t nalt; uint16_t choice; } sim_decision;
enum { DK_SWITCH=1, DK_DEFER=2, DK_PICK=3, DK_TEAMSIZE=4, DK_HOOKYIELD=5, DK_STALL=6, DK_PREEMPT=7, DK_SBUF=8, DK_SBDRAIN=9 };
extern sim_decision *g_trace; extern size_t g_trace_n;
extern uint32_t *g_dec; extern size_t g_dec_n;      /* explicit decisions (input) */
extern uint64_t *g_preempt_at; extern size_t g_preempt_n; /* explicit preemption positions (access counter values) */
unsigned sim_decide(int kind, unsigned nalt, uint32_t p_nonzero16);

/* ---------- simomp */
void simomp_reset(void);
void simomp_set_root_stack(void *stack, size_t size);
void hooks_on_switch(void);
int64_t simclock_now(void);
void simomp_hook_yield(void);             /* called from hook events */
void simomp_preempt_point(void);          /* called from tsan callbacks */
void simomp_preempt_slow(void);
void simomp_preempt_now(void);             /* preempt at this very access (conflict-directed) */
extern int g_cur_fiber_id;
void simomp_preempt_soon(void);
void simomp_preempt_after_buffered_store(void);            /* called from hook events: bias preemptions into freshly started task bodies */
extern uint64_t g_next_preempt;
int  simomp_cur_fiber(void);              /* dense fiber id */
int  simomp_team_size(void);
int  simomp_in_parallel_work(void);       /* >1 fiber alive */
extern uint64_t g_steps, g_accesses;
extern int g_sim_active;                  /* inside a kalign call */

/* counters (reach probes) */
enum {
    PR_TASKS_DEFERRED, PR_TASKS_UNDEFERRED, PR_TASKS_IFFALSE, PR_SWITCHES, PR_PREEMPTS, PR_HOOKYIELDS,
    PR_TEAMS, PR_TEAMS_NESTED_ACTIVE, PR_TEAMS_SHORTFALL, PR_TEAM_MAX, PR_STALLS,
    PR_TASK_STOLEN,            /* task run by a thread other than its creator */
    PR_TASK_AT_TASKWAIT,       /* child started after parent reached taskwait */
    PR_TASK_AT_BARRIER,
    PR_BWD_BEFORE_FWD, PR_FWD_BWD_DIFF_THREAD, PR_FWD_BWD_OVERLAP,
    PR_MERGES_CONCURRENT,      /* max merges in progress at once */
    PR_MERGE_PREEMPTED,        /* a switch happened while >=1 merge in progress */
    PR_SPLITS_DIFF_THREAD, PR_SPLITS_OVERLAP,
    PR_DIST_THREADS,           /* max team size in an omp-for region */
    PR_KM_ROUNDS, PR_MERGES, PR_DP_STEPS, PR_KM_NODES,
    PR_FS_READS, PR_FS_SHORT_READS, PR_FS_READ_FAULTS, PR_FS_OPEN_FAULTS, PR_FS_STAT_FAULTS, PR_FS_WRITES,
    PR_FS_WRITE_FAULTS,
    PR_CLOCK_READS, PR_ALLOCS, PR_ALLOC_FAILS, PR_JUNK_BYTES,
    PR_SB_BUFFERED, PR_SB_STALE_READS,   /* atomic stores held in a store buffer; atomic loads that read memory while another virtual thread held a newer value */
    PR_UNUSUAL_TAKEN,          /* cooperative unusual-branch points that took the unusual side */
    PR_C10_ROWS_CHECKED,       /* nodes whose snapshot was compared with the rows finally handed out */
    PR__N
};
extern uint64_t g_probe[PR__N];
extern const char *g_probe_name[PR__N];

/* ---------- verdict plumbing */
void sim_fatal(const char *verdict, const char *fmt, ...) __attribute__((noreturn,format(printf,2,3)));
void sim_note_violation(const char *cls, const char *fmt, ...) __attribute__((format(printf,2,3)));
extern FILE *g_out;                        /* protocol channel */

/* ---------- hooks */
void hooks_reset(void);
void hooks_install(void);
uint64_t hooks_event_hash(void);
uint64_t hooks_event_count(void);
void hooks_emit_log(FILE *f, int max);
void hooks_c10_final_rows(char **rowbyrank, int nrank, long alen);
extern int g_hooks_log_on;

/* ---------- simfs */
void simfs_reset(void);
void simfs_add(const char *path, char kind, const unsigned char *data, size_t n);
void simfs_fault(const char *path, const char *op, int err, long at);
void simfs_set_stdin(const char *kind, const unsigned char *data, size_t n);
void simfs_begin_call(void);               /* swap stdin/stdout/stderr */
void simfs_end_call(void);
void simfs_emit_outputs(FILE *f, int opidx);
int  simfs_exit_armed(void);
extern int g_stdin_tty;

/* ---------- simclock */
void simclock_reset(void);
void simclock_jump(int64_t delta);

/* ---------- simalloc */
void simalloc_reset(void);
long simalloc_live(void);
size_t simalloc_live_bytes(void);
void simalloc_dump_live(FILE *f, int max);
void simalloc_forget_all(void);

#endif
