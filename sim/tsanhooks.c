/* Access-level preemption points.
 * The kalign objects of the `preempt` variant are compiled with -fsanitize=thread, but the TSan
 * runtime is NOT linked: the callbacks the compiler emits are defined here and turn every
 * instrumented memory access into a potential preemption point owned by the simulator's
 * scheduler.  They are never used as a race oracle. */
#include <stddef.h>
#include <stdint.h>
#include "sim.h"

#define HIT() do { if (__builtin_expect(++g_accesses >= g_next_preempt, 0)) simomp_preempt_slow(); } while (0)

/* Conflict-directed preemption: a direct-mapped table remembers which virtual thread touched a
   location last; a location that two different virtual threads have touched is "shared", and every
   later access to it is a preemption candidate (probability W.p_shared).  This puts preemptions
   exactly where unsynchronised hand-overs can go wrong (between a load and the store that follows it).
   The table is keyed by addresses, so plans that use it run in a fresh worker with address-space
   randomisation off; replay does not need it (preemption positions are access-counter values). */
#define SH_BITS 16
typedef struct { uintptr_t key; unsigned short fib; unsigned char shared; } ShEnt;
static ShEnt g_sh[1 << SH_BITS];
static unsigned char g_page_budget[1 << 14];
extern uint64_t g_accesses_preempted;
void tsan_sb_reset(void);
void tsan_shared_reset(void) { __builtin_memset(g_sh, 0, sizeof g_sh); __builtin_memset(g_page_budget, 0, sizeof g_page_budget); tsan_sb_reset(); }
static inline void shared_access(void *a)
{
    uintptr_t key = (uintptr_t)a >> 3;
    ShEnt *e = &g_sh[(key * 0x9E3779B97F4A7C15ULL) >> (64 - SH_BITS)];
    if (e->key != key) { e->key = key; e->fib = (unsigned short)g_cur_fiber_id; e->shared = 0; return; }
    if (e->fib != (unsigned short)g_cur_fiber_id) { e->fib = (unsigned short)g_cur_fiber_id; e->shared = 1; }
    if (e->shared) {
        /* per-page budget: rows of DP state that are legitimately handed from task to task would otherwise
           absorb all preemptions; a few per 4 kB page leave room for the rare shared scalars */
        unsigned char *b = &g_page_budget[((uintptr_t)a >> 12) * 0x9E3779B97F4A7C15ULL >> (64 - 14)];
        if (*b < 6) { uint64_t before = g_accesses_preempted; simomp_preempt_now(); if (g_accesses_preempted != before) (*b)++; }
    }
}
static void sb_plain_access(void *a);
static int g_sb_total;
#define ACC(name) void name(void *a) { HIT(); if (g_sb_total) sb_plain_access(a); if (W.p_shared) shared_access(a); }

void __tsan_init(void) { }
void __tsan_func_entry(void *pc) { (void)pc; }
void __tsan_func_exit(void) { }
ACC(__tsan_read1) ACC(__tsan_read2) ACC(__tsan_read4) ACC(__tsan_read8) ACC(__tsan_read16)
ACC(__tsan_write1) ACC(__tsan_write2) ACC(__tsan_write4) ACC(__tsan_write8) ACC(__tsan_write16)
ACC(__tsan_unaligned_read2) ACC(__tsan_unaligned_read4) ACC(__tsan_unaligned_read8) ACC(__tsan_unaligned_read16)
ACC(__tsan_unaligned_write2) ACC(__tsan_unaligned_write4) ACC(__tsan_unaligned_write8) ACC(__tsan_unaligned_write16)
ACC(__tsan_read1_pc) ACC(__tsan_read2_pc) ACC(__tsan_read4_pc) ACC(__tsan_read8_pc) ACC(__tsan_read16_pc)
ACC(__tsan_write1_pc) ACC(__tsan_write2_pc) ACC(__tsan_write4_pc) ACC(__tsan_write8_pc) ACC(__tsan_write16_pc)
void __tsan_vptr_update(void **a, void *b) { (void)a; (void)b; }
void __tsan_vptr_read(void **a) { (void)a; }
void __tsan_read_range(void *a, size_t n) { (void)a; (void)n; HIT(); }
void __tsan_write_range(void *a, size_t n) { (void)a; (void)n; HIT(); }
void __tsan_ignore_thread_begin(void) { }
void __tsan_ignore_thread_end(void) { }
/* ---------------------------------------------------------------------------------------------
 * Atomics (C11 atomics, `omp atomic` lowered to builtins).  The compiler turns them into calls, so
 * the simulator owns their effect.  Default: executed in program order (sequential consistency),
 * counted as preemption points like any other access.
 *
 * With W.p_sb > 0 the x86-TSO relaxation is modelled for them: a store that is not seq_cst may sit
 * in the issuing virtual thread's FIFO store buffer; the thread's own loads see it (store
 * forwarding), other threads read memory.  The buffer drains
 *   - completely at every locked operation (RMW, compare-exchange, seq_cst store, seq_cst fence),
 *   - completely at every OpenMP construct that implies a flush (task creation/completion, taskwait,
 *     taskgroup end, barrier, critical, parallel begin/end) - tsan_sb_sync(), called by simomp,
 *   - completely or not at all (seeded decision) when the thread is switched away from,
 *   - completely when the same thread touches one of the buffered locations with a plain access.
 * This is what makes a Dekker-style "store my flag, load yours" handshake with relaxed atomics fail:
 * both sides can read 0.  Plain (non-atomic) stores are executed by the compiled code itself and
 * cannot be delayed; weaker architectures than x86 are not modelled. */
#include <stdint.h>
typedef int morder;
#define SB_MAX 16
typedef struct { volatile void *a; uint64_t v; unsigned char n; } SbEnt;
typedef struct { int owner; int len; SbEnt e[SB_MAX]; } Sb;
#define SB_SLOTS 256
static Sb g_sb[SB_SLOTS];                /* g_sb_total (declared above): entries over all buffers, fast path when 0 */

static Sb *sb_of(int fib, int create)
{
    unsigned h = (unsigned)fib % SB_SLOTS;
    for (unsigned k = 0; k < SB_SLOTS; k++) {
        Sb *b = &g_sb[(h + k) % SB_SLOTS];
        if (b->owner == fib + 1) return b;
        if (!b->owner || !b->len) { if (!create) return NULL; b->owner = fib + 1; b->len = 0; return b; }
    }
    return NULL;
}
static void sb_commit(SbEnt *e)
{
    switch (e->n) {
    case 1: *(volatile uint8_t *)e->a = (uint8_t)e->v; break;
    case 2: *(volatile uint16_t *)e->a = (uint16_t)e->v; break;
    case 4: *(volatile uint32_t *)e->a = (uint32_t)e->v; break;
    default: *(volatile uint64_t *)e->a = e->v; break;
    }
}
static void sb_flush(Sb *b)
{
    if (!b) return;
    for (int i = 0; i < b->len; i++) sb_commit(&b->e[i]);
    g_sb_total -= b->len; b->len = 0;
}
static void sb_flush_cur(void) { if (g_sb_total) sb_flush(sb_of(g_cur_fiber_id, 0)); }
void tsan_sb_reset(void) { __builtin_memset(g_sb, 0, sizeof g_sb); g_sb_total = 0; }
void tsan_sb_sync(void) { sb_flush_cur(); }
void tsan_sb_on_switch(void)
{
    if (!g_sb_total) return;
    Sb *b = sb_of(g_cur_fiber_id, 0);
    if (b && b->len && sim_decide(DK_SBDRAIN, 2, 0x8000u)) sb_flush(b);
}
void tsan_sb_fiber_exit(void) { sb_flush_cur(); }
/* a plain access of the owning thread to a buffered location: make it see its own store */
static void sb_plain_access(void *a)
{
    Sb *b = sb_of(g_cur_fiber_id, 0);
    if (!b) return;
    for (int i = 0; i < b->len; i++)
        if ((uintptr_t)a >= (uintptr_t)b->e[i].a - 15 && (uintptr_t)a < (uintptr_t)b->e[i].a + b->e[i].n) { sb_flush(b); return; }
}
static int sb_lookup(const volatile void *a, int n, uint64_t *out)
{
    Sb *b = g_sb_total ? sb_of(g_cur_fiber_id, 0) : NULL;
    if (b) for (int i = b->len - 1; i >= 0; i--) if (b->e[i].a == a && b->e[i].n == n) { *out = b->e[i].v; return 1; }
    if (g_sb_total) {
        /* reach probe: some other virtual thread holds a newer value for this location */
        for (unsigned k = 0; k < SB_SLOTS; k++) { Sb *o = &g_sb[k]; if (o != b) for (int i = 0; i < o->len; i++) if (o->e[i].a == a) { g_probe[PR_SB_STALE_READS]++; k = SB_SLOTS; break; } }
    }
    return 0;
}
static int sb_store(volatile void *a, int n, uint64_t v, morder mo)
{
    if (!W.p_sb || mo == 5 /* seq_cst */ || !simomp_in_parallel_work()) return 0;
    if (!sim_decide(DK_SBUF, 2, W.p_sb)) return 0;
    Sb *b = sb_of(g_cur_fiber_id, 1);
    if (!b) return 0;
    if (b->len == SB_MAX) { sb_commit(&b->e[0]); __builtin_memmove(&b->e[0], &b->e[1], sizeof(SbEnt) * (SB_MAX - 1)); b->len--; g_sb_total--; }
    b->e[b->len].a = a; b->e[b->len].n = (unsigned char)n; b->e[b->len].v = v; b->len++; g_sb_total++;
    g_probe[PR_SB_BUFFERED]++;
    simomp_preempt_after_buffered_store();
    return 1;
}
#define ATOMICS(N, T) \
    T __tsan_atomic##N##_load(const volatile T *a, morder mo) { (void)mo; HIT(); uint64_t v; if (sb_lookup(a, N / 8, &v)) return (T)v; return *a; } \
    void __tsan_atomic##N##_store(volatile T *a, T v, morder mo) { HIT(); if (sb_store(a, N / 8, (uint64_t)v, mo)) return; sb_flush_cur(); *a = v; } \
    T __tsan_atomic##N##_exchange(volatile T *a, T v, morder mo) { (void)mo; HIT(); sb_flush_cur(); T o = *a; *a = v; return o; } \
    T __tsan_atomic##N##_fetch_add(volatile T *a, T v, morder mo) { (void)mo; HIT(); sb_flush_cur(); T o = *a; *a = (T)(o + v); return o; } \
    T __tsan_atomic##N##_fetch_sub(volatile T *a, T v, morder mo) { (void)mo; HIT(); sb_flush_cur(); T o = *a; *a = (T)(o - v); return o; } \
    T __tsan_atomic##N##_fetch_and(volatile T *a, T v, morder mo) { (void)mo; HIT(); sb_flush_cur(); T o = *a; *a = (T)(o & v); return o; } \
    T __tsan_atomic##N##_fetch_or(volatile T *a, T v, morder mo) { (void)mo; HIT(); sb_flush_cur(); T o = *a; *a = (T)(o | v); return o; } \
    T __tsan_atomic##N##_fetch_xor(volatile T *a, T v, morder mo) { (void)mo; HIT(); sb_flush_cur(); T o = *a; *a = (T)(o ^ v); return o; } \
    T __tsan_atomic##N##_fetch_nand(volatile T *a, T v, morder mo) { (void)mo; HIT(); sb_flush_cur(); T o = *a; *a = (T)~(o & v); return o; } \
    int __tsan_atomic##N##_compare_exchange_strong(volatile T *a, T *c, T v, morder mo, morder fmo) { (void)mo; (void)fmo; HIT(); sb_flush_cur(); if (*a == *c) { *a = v; return 1; } *c = *a; return 0; } \
    int __tsan_atomic##N##_compare_exchange_weak(volatile T *a, T *c, T v, morder mo, morder fmo) { (void)mo; (void)fmo; HIT(); sb_flush_cur(); if (*a == *c) { *a = v; return 1; } *c = *a; return 0; } \
    T __tsan_atomic##N##_compare_exchange_val(volatile T *a, T c, T v, morder mo, morder fmo) { (void)mo; (void)fmo; HIT(); sb_flush_cur(); T o = *a; if (o == c) *a = v; return o; }
ATOMICS(8, uint8_t) ATOMICS(16, uint16_t) ATOMICS(32, uint32_t) ATOMICS(64, uint64_t)
void __tsan_atomic_thread_fence(morder mo) { if (mo == 5) sb_flush_cur(); }
void __tsan_atomic_signal_fence(morder mo) { (void)mo; }
