/* Access-level preemption points.
 * The kalign objects of the `preempt` variant are compiled with -fsanitize=thread, but the TSan
 * runtime is NOT linked: the callbacks the compiler emits are defined here and turn every
 * instrumented memory access into a potential preemption point owned by the simulator's
 * scheduler.  They are never used as a race oracle. */
#include <stddef.h>
#include <stdint.h>
#include "sim.h"

#define HIT() do { if (__builtin_expect(++g_accesses >= g_next_preempt, 0)) simomp_preempt_slow(); } while (0)

/* Conflict-directed preemption: a direct-mapped table remembers which virtual thread touched a
   location last; a location that two different virtual threads have touched is "shared", and every
   later access to it is a preemption candidate (probability W.p_shared).  This puts preemptions
   exactly where unsynchronised hand-overs can go wrong (between a load and the store that follows it).
   The table is keyed by addresses, so plans that use it run in a fresh worker with address-space
   randomisation off; replay does not need it (preemption positions are access-counter values). */
#define SH_BITS 16
typedef struct { uintptr_t key; unsigned short fib; unsigned char shared; } ShEnt;
static ShEnt g_sh[1 << SH_BITS];
static unsigned char g_page_budget[1 << 14];
extern uint64_t g_accesses_preempted;
void tsan_shared_reset(void) { __builtin_memset(g_sh, 0, sizeof g_sh); __builtin_memset(g_page_budget, 0, sizeof g_page_budget); }
static inline void shared_access(void *a)
{
    uintptr_t key = (uintptr_t)a >> 3;
    ShEnt *e = &g_sh[(key * 0x9E3779B97F4A7C15ULL) >> (64 - SH_BITS)];
    if (e->key != key) { e->key = key; e->fib = (unsigned short)g_cur_fiber_id; e->shared = 0; return; }
    if (e->fib != (unsigned short)g_cur_fiber_id) { e->fib = (unsigned short)g_cur_fiber_id; e->shared = 1; }
    if (e->shared) {
        /* per-page budget: rows of DP state that are legitimately handed from task to task would otherwise
           absorb all preemptions; a few per 4 kB page leave room for the rare shared scalars */
        unsigned char *b = &g_page_budget[((uintptr_t)a >> 12) * 0x9E3779B97F4A7C15ULL >> (64 - 14)];
        if (*b < 6) { uint64_t before = g_accesses_preempted; simomp_preempt_now(); if (g_accesses_preempted != before) (*b)++; }
    }
}
#define ACC(name) void name(void *a) { HIT(); if (W.p_shared) shared_access(a); }

void __tsan_init(void) { }
void __tsan_func_entry(void *pc) { (void)pc; }
void __tsan_func_exit(void) { }
ACC(__tsan_read1) ACC(__tsan_read2) ACC(__tsan_read4) ACC(__tsan_read8) ACC(__tsan_read16)
ACC(__tsan_write1) ACC(__tsan_write2) ACC(__tsan_write4) ACC(__tsan_write8) ACC(__tsan_write16)
ACC(__tsan_unaligned_read2) ACC(__tsan_unaligned_read4) ACC(__tsan_unaligned_read8) ACC(__tsan_unaligned_read16)
ACC(__tsan_unaligned_write2) ACC(__tsan_unaligned_write4) ACC(__tsan_unaligned_write8) ACC(__tsan_unaligned_write16)
ACC(__tsan_read1_pc) ACC(__tsan_read2_pc) ACC(__tsan_read4_pc) ACC(__tsan_read8_pc) ACC(__tsan_read16_pc)
ACC(__tsan_write1_pc) ACC(__tsan_write2_pc) ACC(__tsan_write4_pc) ACC(__tsan_write8_pc) ACC(__tsan_write16_pc)
void __tsan_vptr_update(void **a, void *b) { (void)a; (void)b; }
void __tsan_vptr_read(void **a) { (void)a; }
void __tsan_read_range(void *a, size_t n) { (void)a; (void)n; HIT(); }
void __tsan_write_range(void *a, size_t n) { (void)a; (void)n; HIT(); }
void __tsan_ignore_thread_begin(void) { }
void __tsan_ignore_thread_end(void) { }
/* atomics are not used by kalign; if a change introduces them the link fails loudly in this
   variant only, and the orchestrator reports the variant as unavailable (never a VIOLATION). */

/* C11 atomics / omp atomic lowered to builtins: executed as plain operations (one virtual thread runs
   at a time) and counted as potential preemption points like any other access. */
#include <stdint.h>
typedef int morder;
#define ATOMICS(N, T) \
    T __tsan_atomic##N##_load(const volatile T *a, morder mo) { (void)mo; HIT(); return *a; } \
    void __tsan_atomic##N##_store(volatile T *a, T v, morder mo) { (void)mo; HIT(); *a = v; } \
    T __tsan_atomic##N##_exchange(volatile T *a, T v, morder mo) { (void)mo; HIT(); T o = *a; *a = v; return o; } \
    T __tsan_atomic##N##_fetch_add(volatile T *a, T v, morder mo) { (void)mo; HIT(); T o = *a; *a = (T)(o + v); return o; } \
    T __tsan_atomic##N##_fetch_sub(volatile T *a, T v, morder mo) { (void)mo; HIT(); T o = *a; *a = (T)(o - v); return o; } \
    T __tsan_atomic##N##_fetch_and(volatile T *a, T v, morder mo) { (void)mo; HIT(); T o = *a; *a = (T)(o & v); return o; } \
    T __tsan_atomic##N##_fetch_or(volatile T *a, T v, morder mo) { (void)mo; HIT(); T o = *a; *a = (T)(o | v); return o; } \
    T __tsan_atomic##N##_fetch_xor(volatile T *a, T v, morder mo) { (void)mo; HIT(); T o = *a; *a = (T)(o ^ v); return o; } \
    T __tsan_atomic##N##_fetch_nand(volatile T *a, T v, morder mo) { (void)mo; HIT(); T o = *a; *a = (T)~(o & v); return o; } \
    int __tsan_atomic##N##_compare_exchange_strong(volatile T *a, T *c, T v, morder mo, morder fmo) { (void)mo; (void)fmo; HIT(); if (*a == *c) { *a = v; return 1; } *c = *a; return 0; } \
    int __tsan_atomic##N##_compare_exchange_weak(volatile T *a, T *c, T v, morder mo, morder fmo) { (void)mo; (void)fmo; HIT(); if (*a == *c) { *a = v; return 1; } *c = *a; return 0; } \
    T __tsan_atomic##N##_compare_exchange_val(volatile T *a, T c, T v, morder mo, morder fmo) { (void)mo; (void)fmo; HIT(); T o = *a; if (o == c) *a = v; return o; }
ATOMICS(8, uint8_t) ATOMICS(16, uint16_t) ATOMICS(32, uint32_t) ATOMICS(64, uint64_t)
void __tsan_atomic_thread_fence(morder mo) { (void)mo; }
void __tsan_atomic_signal_fence(morder mo) { (void)mo; }
