/* Access-level preemption points.
 * The kalign objects of the `preempt` variant are compiled with -fsanitize=thread, but the TSan
 * runtime is NOT linked: the callbacks the compiler emits are defined here and turn every
 * instrumented memory access into a potential preemption point owned by the simulator's
 * scheduler.  They are never used as a race oracle. */
#include <stddef.h>
#include "sim.h"

#define HIT() do { if (__builtin_expect(++g_accesses >= g_next_preempt, 0)) simomp_preempt_slow(); } while (0)
#define ACC(name) void name(void *a) { (void)a; HIT(); }

void __tsan_init(void) { }
void __tsan_func_entry(void *pc) { (void)pc; }
void __tsan_func_exit(void) { }
ACC(__tsan_read1) ACC(__tsan_read2) ACC(__tsan_read4) ACC(__tsan_read8) ACC(__tsan_read16)
ACC(__tsan_write1) ACC(__tsan_write2) ACC(__tsan_write4) ACC(__tsan_write8) ACC(__tsan_write16)
ACC(__tsan_unaligned_read2) ACC(__tsan_unaligned_read4) ACC(__tsan_unaligned_read8) ACC(__tsan_unaligned_read16)
ACC(__tsan_unaligned_write2) ACC(__tsan_unaligned_write4) ACC(__tsan_unaligned_write8) ACC(__tsan_unaligned_write16)
ACC(__tsan_read1_pc) ACC(__tsan_read2_pc) ACC(__tsan_read4_pc) ACC(__tsan_read8_pc) ACC(__tsan_read16_pc)
ACC(__tsan_write1_pc) ACC(__tsan_write2_pc) ACC(__tsan_write4_pc) ACC(__tsan_write8_pc) ACC(__tsan_write16_pc)
void __tsan_vptr_update(void **a, void *b) { (void)a; (void)b; }
void __tsan_vptr_read(void **a) { (void)a; }
void __tsan_read_range(void *a, size_t n) { (void)a; (void)n; HIT(); }
void __tsan_write_range(void *a, size_t n) { (void)a; (void)n; HIT(); }
void __tsan_ignore_thread_begin(void) { }
void __tsan_ignore_thread_end(void) { }
/* atomics are not used by kalign; if a change introduces them the link fails loudly in this
   variant only, and the orchestrator reports the variant as unavailable (never a VIOLATION). */
