/* simclock: the only clock kalign sees (time, clock, times wrapped at link time).
 * The clock advances only when it is read (by W.clock_step) or when the plan jumps it;
 * it never depends on the schedule. */
#define _GNU_SOURCE
#include <time.h>
#include <sys/times.h>
#include "sim.h"

static int64_t g_now;
static int64_t g_cpu;

void simclock_reset(void) { g_now = W.clock_epoch; g_cpu = 0; }
void simclock_jump(int64_t d) { g_now += d; }
int64_t simclock_now(void) { return g_now; }

time_t __wrap_time(time_t *t)
{
    g_probe[PR_CLOCK_READS]++;
    time_t r = (time_t)g_now;
    g_now += W.clock_step;
    if (t) *t = r;
    return r;
}

clock_t __wrap_clock(void)
{
    g_probe[PR_CLOCK_READS]++;
    g_cpu += (int64_t)W.clock_step * CLOCKS_PER_SEC;
    return (clock_t)g_cpu;
}

clock_t __wrap_times(struct tms *b)
{
    g_probe[PR_CLOCK_READS]++;
    g_cpu += W.clock_step * 100;
    if (b) { b->tms_utime = (clock_t)g_cpu; b->tms_stime = 0; b->tms_cutime = 0; b->tms_cstime = 0; }
    return (clock_t)(g_now * 100);
}
