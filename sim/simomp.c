/* simomp: a deterministic, single-OS-thread OpenMP runtime behind the libgomp ABI.
 *
 * Virtual threads are fibers; exactly one runs at a time; who runs next is decided by
 * schedule() from the run's PRNG or from an explicit decision list (replay).  The model follows
 * the OpenMP task scheduling rules: undeferred execution is always allowed; tied tasks never
 * migrate; a thread suspended in taskwait only starts descendants of the waiting task; the end
 * of a parallel region waits for every explicit task of the region; teams are never larger than
 * requested and nested regions get one thread unless max-active-levels allows more.
 */
#define _GNU_SOURCE
#include <ucontext.h>
#include <sys/mman.h>
#include <errno.h>
#include <stdbool.h>
#include <stdlib.h>
#include <string.h>
#include <stdarg.h>
#include <math.h>
#include "sim.h"

#if defined(__SANITIZE_ADDRESS__) || defined(SIM_ASAN_BUILD)
#include <sanitizer/common_interface_defs.h>
#define SIM_ASAN 1
#endif
#include <valgrind/valgrind.h>

typedef struct Task Task;
typedef struct Team Team;
typedef struct Fiber Fiber;
typedef struct Ctx Ctx;
typedef struct TaskGroup TaskGroup;

enum { T_QUEUED = 1, T_RUNNING, T_DONE };
enum { F_RUN = 1, F_TASKWAIT, F_ENDBARRIER, F_BARRIER, F_BARRIER_LAST, F_JOIN, F_LOCK, F_TASKGROUP, F_DONE };

struct TaskGroup { TaskGroup *up; int unfinished; uintptr_t *reductions; };

struct Task {
    void (*fn)(void *);
    void *arg, *argbuf;
    Task *parent;
    Team *team;
    TaskGroup *tg;          /* group the task was created in */
    TaskGroup *cur_tg;      /* innermost open group of this task's own body */
    int explicit_;
    int state;
    int unfinished_children;
    int id;
    int creator_fiber;
    int nthreads_var;
    int final_;
    int parent_in_taskwait_at_start;
    Task *all_next;
    Task *qnext, *qprev;
};

struct Team {
    int n, level, active_level;
    Task *qhead, *qtail;
    int qlen;
    int outstanding;
    int arrived;
    int done_workers;
    unsigned single_count;
    Task *all;
    Fiber **workers;
    Task **implicit;
    void (*fn)(void *);
    void *data;
    /* explicit barriers */
    unsigned bar_gen; int bar_count;
    /* worksharing */
    unsigned ws_gen;       /* number of worksharing constructs started by the first arriver */
    long ws_next, ws_end, ws_incr, ws_chunk; int ws_kind; int ws_sections;
    unsigned ws_left;      /* threads still to leave the current construct */
    int ploop;             /* combined parallel+workshare: construct 0 is pre-initialised */
    void *copypriv;
    int in_for;
};

struct Ctx {
    Team *team;
    int tid;
    Task *cur;
    unsigned single_count;
    unsigned ws_count;
    long st_next, st_end;  /* static schedule iteration state */
    int st_done;
    Ctx *up;
};

struct Fiber {
    ucontext_t uc;
    void *stack; size_t ssize;
    int id;
    unsigned vg_id;
    Ctx *ctx;
    int state;
    Task *wait_task;
    Team *wait_team;
    unsigned wait_gen;
    void *wait_lock;
    TaskGroup *wait_tg;
    uint64_t stall_until;
    void *asan_fake;
    int saved_errno;
    Team *w_team; int w_tid;
    int tls_key;            /* which OS-thread-local storage this virtual thread sees: 0 main thread, i = pool thread i, -1 its own */
    char *tls_priv;
    Fiber *pool_next;
    int dying;
};

#define MAX_FIBERS 4096
static Fiber *g_fib[MAX_FIBERS];
static int g_nfib;                 /* live fibers (including root) */
static Fiber *g_cur;
static Fiber g_root;
static Ctx g_root_ctx;
static Task g_root_task;
static Fiber *g_pool;
static int g_next_fiber_id, g_next_task_id;
static struct { long s, e, i, c; int kind; int armed; } g_ploop;
static sim_rng g_srng;
uint64_t g_next_preempt;
static size_t g_dec_pos, g_preempt_pos;

uint64_t g_steps, g_accesses, g_accesses_preempted;
int g_cur_fiber_id;
int g_sim_active;
sim_decision *g_trace; size_t g_trace_n; static size_t g_trace_cap;
uint32_t *g_dec; size_t g_dec_n;
uint64_t *g_preempt_at; size_t g_preempt_n;
uint64_t *g_preempt_trace; size_t g_preempt_trace_n; static size_t g_preempt_trace_cap;
uint64_t g_probe[PR__N];
const char *g_probe_name[PR__N] = {
    "tasks_deferred","tasks_undeferred","tasks_if_false","switches","preempts","hook_yields",
    "teams","teams_nested_active","teams_shortfall","team_max","stalls",
    "task_stolen","task_started_at_taskwait","task_started_at_barrier",
    "bwd_before_fwd","fwd_bwd_diff_thread","fwd_bwd_overlap",
    "merges_concurrent_max","merge_preempted",
    "splits_diff_thread","splits_overlap",
    "dist_threads_max","km_rounds","merges","dp_steps","km_nodes",
    "fs_reads","fs_short_reads","fs_read_faults","fs_open_faults","fs_stat_faults","fs_writes","fs_write_faults",
    "clock_reads","allocs","alloc_fails","junk_bytes",
    "sb_stores_buffered","sb_stale_reads","unusual_branches_taken","c10_nodes_checked_in_output"
};

/* Stack of a virtual thread.  Without sanitizer instrumentation it is what a real thread gets by default (8 MB, the
   usual RLIMIT_STACK that libgomp's threads inherit), with a guard page below it, so that a frame that grows with the
   input (a VLA, alloca, deep recursion) overflows here where it would overflow in production.  ASan frames are several
   times larger than native ones, so that build keeps a generous stack and finds such bugs through its own reports. */
#ifdef SIM_ASAN_BUILD
#define STACK_SIZE ((size_t)64 << 20)
#else
#define STACK_SIZE ((size_t)8 << 20)
#endif
#define STACK_GUARD ((size_t)64 << 10)

/* ------------------------------------------------------------------ decisions */

static void trace_push(int kind, unsigned nalt, unsigned choice)
{
    if (g_trace_n == g_trace_cap) {
        g_trace_cap = g_trace_cap ? g_trace_cap * 2 : 1024;
        g_trace = sim_xrealloc(g_trace, g_trace_cap * sizeof *g_trace);
    }
    g_trace[g_trace_n].kind = (uint8_t)kind;
    g_trace[g_trace_n].nalt = (uint16_t)nalt;
    g_trace[g_trace_n].choice = (uint16_t)choice;
    g_trace_n++;
}

/* seeded_choice is what the run's PRNG-driven policy wants; explicit mode overrides it. */
static unsigned decide_with(int kind, unsigned nalt, unsigned seeded_choice)
{
    unsigned c;
    if (nalt <= 1) return 0;
    if (W.explicit_decisions) {
        c = g_dec_pos < g_dec_n ? g_dec[g_dec_pos] % nalt : 0;
        g_dec_pos++;
    } else {
        c = seeded_choice % nalt;
    }
    trace_push(kind, nalt, c);
    if (++g_steps > W.max_steps) sim_fatal("BUDGET", "scheduler step budget %llu exhausted", (unsigned long long)W.max_steps);
    return c;
}

/* p16: probability (in 1/65536) of a non-default (non-zero) choice; 0x10000 = uniform over all. */
unsigned sim_decide(int kind, unsigned nalt, uint32_t p16)
{
    unsigned s = 0;
    if (nalt <= 1) return 0;
    if (!W.explicit_decisions) {
        if (p16 >= 0x10000u) s = sim_rng_below(&g_srng, nalt);
        else if (sim_rng_chance(&g_srng, p16)) s = 1 + sim_rng_below(&g_srng, nalt - 1);
    }
    return decide_with(kind, nalt, s);
}

/* ------------------------------------------------------------------ fibers */

static void fiber_trampoline(unsigned lo, unsigned hi);

static Fiber *fiber_new(void)
{
    Fiber *f = g_pool;
    if (f) { g_pool = f->pool_next; }
    else {
        f = sim_xcalloc(1, sizeof *f);
        f->ssize = STACK_SIZE;
        char *base = mmap(NULL, f->ssize + STACK_GUARD, PROT_READ | PROT_WRITE, MAP_PRIVATE | MAP_ANONYMOUS | MAP_NORESERVE | MAP_STACK, -1, 0);
        if (base == MAP_FAILED) sim_fatal("HARNESS", "mmap fiber stack failed");
        mprotect(base, STACK_GUARD, PROT_NONE);
        f->stack = base + STACK_GUARD;
        f->vg_id = VALGRIND_STACK_REGISTER(f->stack, (char *)f->stack + f->ssize);
    }
    if (g_nfib >= MAX_FIBERS) sim_fatal("HARNESS", "too many fibers");
    f->id = g_next_fiber_id++;
    f->state = F_RUN; f->ctx = NULL; f->stall_until = 0; f->asan_fake = NULL; f->saved_errno = 0; f->dying = 0;
    getcontext(&f->uc);
    f->uc.uc_stack.ss_sp = f->stack;
    f->uc.uc_stack.ss_size = f->ssize;
    f->uc.uc_link = NULL;
    uintptr_t p = (uintptr_t)f;
    makecontext(&f->uc, (void (*)(void))fiber_trampoline, 2, (unsigned)(p & 0xffffffffu), (unsigned)(p >> 32));
    g_fib[g_nfib++] = f;
    return f;
}

static void fiber_unlist(Fiber *f)
{
    for (int i = 0; i < g_nfib; i++) if (g_fib[i] == f) { memmove(&g_fib[i], &g_fib[i+1], (size_t)(g_nfib - i - 1) * sizeof g_fib[0]); g_nfib--; return; }
}

static void fiber_release(Fiber *f) { f->pool_next = g_pool; g_pool = f; }

/* ---- thread-local storage (`__thread`, `#pragma omp threadprivate`) per virtual thread.
   All fibers run on one OS thread and would share one copy of kalign's thread-local variables; real worker threads each
   have their own, and libgomp's pooled workers KEEP theirs between parallel regions.  The executable's PT_TLS block is
   therefore swapped at every fiber switch: the main thread (key 0) and top-level worker i (key i, persistent for the
   plan like a pool thread) and nested workers (own copy, initialised from the template).  Not done in the ASan build,
   whose runtime keeps its own per-thread state in the same block. */
#ifndef SIM_ASAN
#include <link.h>
#define TLS_KEYS 1024
static struct { int probed, ready; size_t memsz, filesz; const char *tmpl; char *live; } g_tls;
static char *g_tls_area[TLS_KEYS];
static int tls_phdr_cb(struct dl_phdr_info *info, size_t size, void *data)
{
    (void)size; (void)data;
    if (info->dlpi_name && info->dlpi_name[0]) return 0;          /* the main executable has an empty name */
    for (int i = 0; i < info->dlpi_phnum; i++) if (info->dlpi_phdr[i].p_type == PT_TLS && info->dlpi_tls_data) {
        g_tls.memsz = info->dlpi_phdr[i].p_memsz; g_tls.filesz = info->dlpi_phdr[i].p_filesz;
        g_tls.tmpl = (const char *)(info->dlpi_addr + info->dlpi_phdr[i].p_vaddr);
        g_tls.live = info->dlpi_tls_data;
        g_tls.ready = g_tls.memsz > 0;
    }
    return 1;
}
static void tls_template(char *dst) { memcpy(dst, g_tls.tmpl, g_tls.filesz); memset(dst + g_tls.filesz, 0, g_tls.memsz - g_tls.filesz); }
static char **tls_slot(Fiber *f) { return (f->tls_key >= 0 && f->tls_key < TLS_KEYS) ? &g_tls_area[f->tls_key] : &f->tls_priv; }
static void tls_switch(Fiber *prev, Fiber *next)
{
    if (!g_tls.ready || (prev->tls_key >= 0 && prev->tls_key == next->tls_key)) return;
    char **ps = tls_slot(prev), **ns = tls_slot(next);
    if (!*ps) *ps = sim_xmalloc(g_tls.memsz);
    memcpy(*ps, g_tls.live, g_tls.memsz);
    if (!*ns) { *ns = sim_xmalloc(g_tls.memsz); tls_template(*ns); }
    memcpy(g_tls.live, *ns, g_tls.memsz);
}
static void tls_reset(void)
{
    if (!g_tls.probed) { g_tls.probed = 1; dl_iterate_phdr(tls_phdr_cb, NULL); }
    if (!g_tls.ready) return;
    for (int i = 0; i < TLS_KEYS; i++) { sim_xfree(g_tls_area[i]); g_tls_area[i] = NULL; }
    tls_template(g_tls.live);          /* every plan starts like a fresh process */
}
#else
#define tls_switch(a, b) ((void)0)
#define tls_reset() ((void)0)
#endif

static void switch_to(Fiber *next)
{
    Fiber *prev = g_cur;
    if (next == prev) return;
    prev->saved_errno = errno;
    g_probe[PR_SWITCHES]++;
    tls_switch(prev, next);
    g_cur = next;
    g_cur_fiber_id = next->id;
#ifdef SIM_ASAN
    __sanitizer_start_switch_fiber(prev->dying ? NULL : &prev->asan_fake, next->stack, next->ssize);
#endif
    swapcontext(&prev->uc, &next->uc);
#ifdef SIM_ASAN
    __sanitizer_finish_switch_fiber(g_cur->asan_fake, NULL, NULL);
#endif
    errno = g_cur->saved_errno;
}

/* ------------------------------------------------------------------ task queue helpers */

static bool is_descendant(Task *t, Task *anc)
{
    for (Task *p = t->parent; p; p = p->parent) if (p == anc) return true;
    return false;
}

/* which queued tasks a waiting task may start: at a taskwait its children (or, as a world parameter, any
   descendant); at the end of a taskgroup any descendant, because the group also waits for grandchildren */
static int g_wait_desc;
static bool eligible_for_wait(Task *q, Task *waiter)
{
    if (q->parent == waiter) return true;
    return (W.tw_descendants || g_wait_desc) && is_descendant(q, waiter);
}

static bool has_eligible(Team *tm, Task *waiter)
{
    if (!waiter) return tm->qlen > 0;
    for (Task *q = tm->qhead; q; q = q->qnext) if (eligible_for_wait(q, waiter)) return true;
    return false;
}

static bool has_eligible_desc(Team *tm, Task *waiter)
{
    g_wait_desc = 1; bool r = has_eligible(tm, waiter); g_wait_desc = 0; return r;
}

static void q_push(Team *tm, Task *t)
{
    t->qnext = NULL; t->qprev = tm->qtail;
    if (tm->qtail) tm->qtail->qnext = t; else tm->qhead = t;
    tm->qtail = t; tm->qlen++;
}

static void q_remove(Team *tm, Task *t)
{
    if (t->qprev) t->qprev->qnext = t->qnext; else tm->qhead = t->qnext;
    if (t->qnext) t->qnext->qprev = t->qprev; else tm->qtail = t->qprev;
    t->qnext = t->qprev = NULL; tm->qlen--;
}

static Task *pick_task(Team *tm, Task *waiter)
{
    unsigned n = 0;
    for (Task *q = tm->qhead; q; q = q->qnext) if (!waiter || eligible_for_wait(q, waiter)) n++;
    if (!n) return NULL;
    unsigned want = 0;
    if (W.pick_order == 1) want = n - 1;
    else if (W.pick_order == 2 && !W.explicit_decisions) want = sim_rng_below(&g_srng, n);
    unsigned c = decide_with(DK_PICK, n, want);
    for (Task *q = tm->qhead; q; q = q->qnext) if (!waiter || eligible_for_wait(q, waiter)) { if (!c--) return q; }
    return NULL;
}

/* ------------------------------------------------------------------ scheduler */

static bool fiber_can_run(Fiber *f)
{
    switch (f->state) {
    case F_RUN: return true;
    case F_TASKWAIT: return f->wait_task->unfinished_children == 0 || has_eligible(f->wait_task->team, f->wait_task);
    case F_TASKGROUP: return f->wait_tg->unfinished == 0 || has_eligible_desc(f->wait_task->team, f->wait_task);
    case F_ENDBARRIER: { Team *tm = f->wait_team; return tm->qlen > 0 || (tm->outstanding == 0 && tm->arrived == tm->n); }
    case F_BARRIER: { Team *tm = f->wait_team; return tm->bar_gen != f->wait_gen || tm->qlen > 0; }
    case F_BARRIER_LAST: { Team *tm = f->wait_team; return tm->outstanding == 0 || tm->qlen > 0; }
    case F_JOIN: return f->wait_team->done_workers == f->wait_team->n - 1;
    case F_LOCK: return *(volatile int *)f->wait_lock == 0;
    default: return false;
    }
}

static int g_at_preempt;     /* inside an access-level preemption (for the stall decision below) */
/* store-buffer model for atomics (tsanhooks.c, preempt build only) */
extern void tsan_sb_sync(void) __attribute__((weak));
extern void tsan_sb_on_switch(void) __attribute__((weak));
#define SB_SYNC() do { if (tsan_sb_sync) tsan_sb_sync(); } while (0)

static void schedule(uint32_t p16)
{
    Fiber *cand[MAX_FIBERS];
    unsigned n = 0;
    bool cur_ok = fiber_can_run(g_cur);
    if (g_nfib == 1 && g_fib[0] == g_cur) {
        if (!cur_ok) sim_fatal("DEADLOCK", "single fiber blocked in state %d", g_cur->state);
        return;
    }
    if (cur_ok) cand[n++] = g_cur;
    for (int i = 0; i < g_nfib; i++) {
        Fiber *f = g_fib[i];
        if (f == g_cur || f->stall_until > g_steps) continue;
        if (fiber_can_run(f)) cand[n++] = f;
    }
    if (n == 0) {
        for (int i = 0; i < g_nfib; i++) { Fiber *f = g_fib[i]; if (f != g_cur && fiber_can_run(f)) cand[n++] = f; }
    }
    if (n == 0) sim_fatal("DEADLOCK", "no runnable virtual thread (%d fibers)", g_nfib);
    unsigned c = sim_decide(DK_SWITCH, n, cur_ok ? p16 : 0x10000u);
    Fiber *next = cand[c];
    if (next != g_cur) {
        if (cur_ok && (W.p_stall || (g_at_preempt && W.p_shared))) {
            /* with conflict-directed preemption the preempted thread is usually held back for a while:
               the other threads get time to reach the same shared location */
            unsigned k = sim_decide(DK_STALL, 17, (g_at_preempt && W.p_shared) ? 40000u : W.p_stall);
            if (k) { g_cur->stall_until = g_steps + 4ull * k; g_probe[PR_STALLS]++; }
        }
        hooks_on_switch();
        if (tsan_sb_on_switch) tsan_sb_on_switch();
        switch_to(next);
    }
}

/* ------------------------------------------------------------------ tasks */

static Task *cur_task(void) { return g_cur->ctx->cur; }

static Task *task_new(Team *tm, Task *parent, int explicit_)
{
    Task *t = sim_xcalloc(1, sizeof *t);
    t->team = tm; t->parent = parent; t->explicit_ = explicit_;
    t->id = g_next_task_id++;
    t->creator_fiber = g_cur->id;
    t->nthreads_var = parent ? parent->nthreads_var : W.nthreads_icv;
    if (tm) { t->all_next = tm->all; tm->all = t; }
    return t;
}

static void task_complete(Task *t)
{
    SB_SYNC();                    /* task completion implies a flush */
    t->state = T_DONE;
    if (t->parent) t->parent->unfinished_children--;
    if (t->tg) t->tg->unfinished--;
    if (t->team && t->explicit_) t->team->outstanding--;
    if (t->argbuf) { sim_xfree(t->argbuf); t->argbuf = NULL; }
}

static void run_task_here(Task *t)
{
    Ctx *cx = g_cur->ctx;
    Task *saved = cx->cur;
    t->state = T_RUNNING;
    if (t->creator_fiber != g_cur->id) g_probe[PR_TASK_STOLEN]++;
    cx->cur = t;
    t->fn(t->arg);
    cx = g_cur->ctx;
    cx->cur = saved;
    task_complete(t);
}

static void *copy_args(Task *t, void *data, void (*cpyfn)(void *, void *), long size, long align)
{
    if (align < 1) align = 1;
    t->argbuf = sim_xmalloc((size_t)size + (size_t)align + 16);
    char *a = (char *)(((uintptr_t)t->argbuf + (uintptr_t)align - 1) & ~((uintptr_t)align - 1));
    if (cpyfn) cpyfn(a, data); else memcpy(a, data, (size_t)size);
    return a;
}

/* one explicit task; range != NULL (taskloop): the first two longs of the copied argument block are the
   chunk's start and end, and the block is always copied */
static void spawn_task(void (*fn)(void *), void *data, void (*cpyfn)(void *, void *), long arg_size, long arg_align,
                       bool if_clause, unsigned flags, const long *range)
{
    SB_SYNC();                    /* task creation is a task scheduling point: implied flush */
    Ctx *cx = g_cur->ctx;
    Team *tm = cx->team;
    Task *parent = cx->cur;
    Task *t = task_new(tm, parent, 1);
    t->fn = fn;
    t->final_ = (flags & 2u) || parent->final_;
    t->tg = parent->cur_tg ? parent->cur_tg : parent->tg;     /* a task belongs to the innermost enclosing taskgroup of its ancestors */
    parent->unfinished_children++;
    if (t->tg) t->tg->unfinished++;
    if (tm) tm->outstanding++;
    bool deferable = if_clause && tm != NULL && !parent->final_;
    if (!if_clause) g_probe[PR_TASKS_IFFALSE]++;
    unsigned defer = deferable ? sim_decide(DK_DEFER, 2, W.p_defer) : 0;
    if (!defer) {
        g_probe[PR_TASKS_UNDEFERRED]++;
        if (cpyfn || range) t->arg = copy_args(t, data, cpyfn, arg_size, arg_align); else t->arg = data;
        if (range) { ((long *)t->arg)[0] = range[0]; ((long *)t->arg)[1] = range[1]; }
        Task *saved = cx->cur;
        t->state = T_RUNNING;
        cx->cur = t;
        fn(t->arg);
        cx = g_cur->ctx;
        cx->cur = saved;
        task_complete(t);
        if (!tm) sim_xfree(t);
        return;
    }
    g_probe[PR_TASKS_DEFERRED]++;
    t->arg = copy_args(t, data, cpyfn, arg_size, arg_align);
    if (range) { ((long *)t->arg)[0] = range[0]; ((long *)t->arg)[1] = range[1]; }
    t->state = T_QUEUED;
    q_push(tm, t);
    schedule(W.p_switch);
}

void GOMP_task(void (*fn)(void *), void *data, void (*cpyfn)(void *, void *), long arg_size, long arg_align,
               bool if_clause, unsigned flags, void **depend, int priority, void *detach)
{
    (void)depend; (void)priority; (void)detach;
    if (flags & (8u | 8192u)) sim_fatal("UNSUPPORTED", "task depend/detach clause (flags=%u)", flags);
    spawn_task(fn, data, cpyfn, arg_size, arg_align, if_clause, flags, NULL);
}

void GOMP_taskwait(void)
{
    SB_SYNC();
    Task *t = cur_task();
    if (!t->team) return;
    while (t->unfinished_children > 0) {
        g_cur->state = F_TASKWAIT; g_cur->wait_task = t;
        schedule(W.p_switch);
        g_cur->state = F_RUN;
        if (t->unfinished_children == 0) break;
        Task *e = pick_task(t->team, t);
        if (e) { q_remove(t->team, e); e->parent_in_taskwait_at_start = 1; g_probe[PR_TASK_AT_TASKWAIT]++; run_task_here(e); }
    }
}

void GOMP_taskyield(void) { if (g_cur->ctx->team) schedule(W.p_switch); }

void GOMP_taskgroup_start(void)
{
    Task *t = cur_task();
    TaskGroup *g = sim_xcalloc(1, sizeof *g);
    g->up = t->cur_tg; t->cur_tg = g;
}

void GOMP_taskgroup_end(void)
{
    SB_SYNC();
    Task *t = cur_task();
    TaskGroup *g = t->cur_tg;
    if (!g) return;
    /* approximation: wait for the tasks created directly in the group and, through their own
       taskwait-free completion, count only those; descendants created in nested groups are
       attached to the same group pointer through inheritance in GOMP_task */
    while (g->unfinished > 0 && t->team) {
        g_cur->state = F_TASKGROUP; g_cur->wait_task = t; g_cur->wait_tg = g;
        schedule(W.p_switch);
        g_cur->state = F_RUN;
        if (g->unfinished == 0) break;
        g_wait_desc = 1;
        Task *e = pick_task(t->team, t);
        g_wait_desc = 0;
        if (e) { q_remove(t->team, e); run_task_here(e); }
    }
    t->cur_tg = g->up;
    sim_xfree(g);
}

/* ---- task reductions (libgomp ABI: the descriptor array d[] is laid out by the compiler:
   d[0] count, d[1] bytes per thread, d[2] alignment in / base of the per-thread copies out, d[3] allocator,
   d[4] next descriptor, d[5] runtime use, d[6] end of the copies, then per reduction (original address,
   offset in the per-thread chunk, back pointer).  The compiler-generated code initialises a thread's copy on
   first use, and merges all copies into the originals after the taskgroup ended. */
static void reduction_register(uintptr_t *data, uintptr_t *old, unsigned nthreads)
{
    uintptr_t *d = data;
    for (;;) {
        size_t sz = (size_t)d[1] * nthreads;
        size_t al = d[2] ? (size_t)d[2] : 16;
        char *raw = sim_xcalloc(1, sz + al + sizeof(void *));
        char *a = (char *)(((uintptr_t)raw + sizeof(void *) + al - 1) & ~((uintptr_t)al - 1));
        ((void **)a)[-1] = raw;
        d[2] = (uintptr_t)a;
        d[6] = d[2] + sz;
        d[5] = 0;
        for (size_t j = 0; j < d[0]; j++) d[7 + 3 * j + 2] = (uintptr_t)d;
        if (d[4] == 0) { d[4] = (uintptr_t)old; break; }
        d = (uintptr_t *)d[4];
    }
    data[5] = 1;                       /* head of a registration (libgomp keeps its hash table here) */
}

void GOMP_taskgroup_reduction_register(uintptr_t *data)
{
    Task *t = cur_task();
    Team *tm = g_cur->ctx->team;
    if (!t->cur_tg) sim_fatal("UNSUPPORTED", "task reduction registered outside a taskgroup");
    reduction_register(data, t->cur_tg->reductions, tm ? (unsigned)tm->n : 1u);
    t->cur_tg->reductions = data;
}

void GOMP_taskgroup_reduction_unregister(uintptr_t *data)
{
    uintptr_t *d = data;
    data[5] = 0;
    do {
        if (d[2]) sim_xfree(((void **)d[2])[-1]);
        d[2] = 0;
        d = (uintptr_t *)d[4];
    } while (d && !d[5]);              /* stops at the head of an outer registration: that one is unregistered by its own construct */
}

void GOMP_task_reduction_remap(size_t cnt, size_t cntorig, void **ptrs)
{
    Task *t = cur_task();
    unsigned id = (unsigned)g_cur->ctx->tid;
    uintptr_t *data = NULL;
    for (TaskGroup *g = t->cur_tg ? t->cur_tg : t->tg; g && !data; g = g->up) data = g->reductions;
    if (!data) sim_fatal("UNSUPPORTED", "GOMP_task_reduction_remap without a registered task reduction");
    for (size_t i = 0; i < cnt; i++) {
        uintptr_t *d, *hit = NULL, *hd = NULL;
        for (d = data; d && !hit; d = (uintptr_t *)d[4])
            for (size_t j = 0; j < d[0]; j++) if (d[7 + 3 * j] == (uintptr_t)ptrs[i]) { hit = d + 7 + 3 * j; hd = d; break; }
        if (hit) {
            ptrs[i] = (void *)(hd[2] + (uintptr_t)id * hd[1] + hit[1]);
            if (i < cntorig) ptrs[cnt + i] = (void *)hit[0];
            continue;
        }
        for (d = data; d; d = (uintptr_t *)d[4]) if ((uintptr_t)ptrs[i] >= d[2] && (uintptr_t)ptrs[i] < d[6]) break;
        if (!d) sim_fatal("UNSUPPORTED", "task reduction remap: no matching reduction for %p", ptrs[i]);
        uintptr_t off = ((uintptr_t)ptrs[i] - d[2]) % d[1];
        ptrs[i] = (void *)(d[2] + (uintptr_t)id * d[1] + off);
        if (i < cntorig)
            for (size_t j = 0; j < d[0]; j++) if (d[7 + 3 * j + 1] == off) { ptrs[cnt + i] = (void *)d[7 + 3 * j]; break; }
    }
}

/* taskloop: the iterations are cut into num_tasks chunks (team size by default), one explicit task per chunk,
   inside an implicit taskgroup unless nogroup was given */
void GOMP_taskloop(void (*fn)(void *), void *data, void (*cpyfn)(void *, void *), long arg_size, long arg_align,
                   unsigned flags, unsigned long num_tasks, int priority, long start, long end, long step)
{
    (void)priority;
    Team *tm = g_cur->ctx->team;
    unsigned long n;
    if ((flags & 256u) ? start >= end : start <= end) {
        /* no iterations: tell the caller's merge code that no reduction was registered (libgomp does the same) */
        if ((flags & (2048u | 4096u)) == 4096u) { struct head { long t1, t2; uintptr_t *ptr; }; ((struct head *)data)->ptr[2] = 0; }
        return;
    }
    if (flags & 256u) n = (unsigned long)(end - start + step - 1) / (unsigned long)step;
    else n = (unsigned long)(start - end - step - 1) / (unsigned long)(-step);
    long task_step = step;
    unsigned long nfirst = n;
    if (flags & 512u) {              /* grainsize */
        unsigned long grainsize = num_tasks;
        num_tasks = n / grainsize;
        if (num_tasks <= 1) { num_tasks = 1; task_step = end - start; }
        else if (num_tasks >= grainsize) {
            unsigned long mul = num_tasks * grainsize;
            task_step = (long)grainsize * step;
            if (mul != n) { task_step += step; nfirst = n - mul - 1; }
        } else {
            unsigned long div = n / num_tasks, mod = n % num_tasks;
            task_step = (long)div * step;
            if (mod) { task_step += step; nfirst = mod - 1; }
        }
    } else {
        if (num_tasks == 0) num_tasks = tm ? (unsigned long)tm->n : 1;
        if (num_tasks >= n) num_tasks = n;
        else {
            unsigned long div = n / num_tasks, mod = n % num_tasks;
            task_step = (long)div * step;
            if (mod) { task_step += step; nfirst = mod - 1; }
        }
    }
    if (!(flags & 2048u)) {          /* not nogroup */
        GOMP_taskgroup_start();
        if (flags & 4096u) {         /* reduction: the descriptor pointer follows the two range slots */
            struct head { long t1, t2; uintptr_t *ptr; };
            GOMP_taskgroup_reduction_register(((struct head *)data)->ptr);
        }
    }
    bool if_clause = (flags & 1024u) != 0;
    for (unsigned long i = 0; i < num_tasks; i++) {
        long range[2];
        range[0] = start; start += task_step; range[1] = start;
        if (i == nfirst) task_step -= step;
        spawn_task(fn, data, cpyfn, arg_size, arg_align, if_clause, flags & 2u, range);
    }
    if (!(flags & 2048u)) GOMP_taskgroup_end();
}

/* ------------------------------------------------------------------ parallel regions */

static void end_barrier(Team *tm)
{
    SB_SYNC();
    tm->arrived++;
    for (;;) {
        g_cur->state = F_ENDBARRIER; g_cur->wait_team = tm;
        schedule(W.p_switch);
        g_cur->state = F_RUN;
        if (tm->qlen > 0) {
            Task *e = pick_task(tm, NULL);
            q_remove(tm, e);
            g_probe[PR_TASK_AT_BARRIER]++;
            run_task_here(e);
            continue;
        }
        if (tm->outstanding == 0 && tm->arrived == tm->n) break;
    }
}

static void fiber_trampoline(unsigned lo, unsigned hi)
{
    Fiber *f = (Fiber *)((uintptr_t)lo | ((uintptr_t)hi << 32));
#ifdef SIM_ASAN
    __sanitizer_finish_switch_fiber(NULL, NULL, NULL);
#endif
    errno = 0;
    Team *tm = f->w_team;
    Ctx cx; memset(&cx, 0, sizeof cx);
    cx.team = tm; cx.tid = f->w_tid; cx.cur = tm->implicit[f->w_tid]; cx.up = NULL;
    cx.ws_count = tm->ploop ? 1u : 0u;
    f->ctx = &cx;
    tm->fn(tm->data);
    end_barrier(tm);
    tm->done_workers++;
    f->state = F_DONE; f->dying = 1;
    fiber_unlist(f);
    /* hand over; never resumed */
    for (;;) { schedule(0x10000u); sim_fatal("HARNESS", "dead fiber resumed"); }
}

void GOMP_parallel(void (*fn)(void *), void *data, unsigned num_threads, unsigned flags)
{
    (void)flags;
    SB_SYNC();
    Ctx *up = g_cur->ctx;
    Task *enc = up->cur;
    unsigned n = num_threads ? num_threads : (unsigned)enc->nthreads_var;
    int active = up->team ? up->team->active_level : 0;
    int level = up->team ? up->team->level + 1 : 1;
    if (n < 1) n = 1;
    if (active >= W.max_active_levels) n = 1;
    /* fault model of the real runtime: it cannot start a team of any size.  libgomp on this machine starts 20 000
       threads, dies with SIGSEGV in its team start at 100 000 and with an out-of-memory abort at 2e9 - in every case
       the process of the caller ends abnormally, which the caller can only prevent by not asking */
    if (W.team_fail_above > 0 && n > (unsigned)W.team_fail_above)
        sim_fatal("RUNTIME_TEAM", "the OpenMP runtime cannot start a team of %u threads (thread creation failure; real libgomp ends the process)", n);
    if ((int)n > W.thread_limit) n = (unsigned)W.thread_limit;
    if (n > 1 && W.p_shortfall) {
        unsigned c = sim_decide(DK_TEAMSIZE, n, W.p_shortfall);
        if (c) { n -= c; g_probe[PR_TEAMS_SHORTFALL]++; }
    }
    Team *tm = sim_xcalloc(1, sizeof *tm);
    tm->n = (int)n; tm->level = level; tm->active_level = active + (n > 1 ? 1 : 0);
    tm->fn = fn; tm->data = data;
    tm->implicit = sim_xcalloc(n, sizeof(Task *));
    tm->workers = sim_xcalloc(n, sizeof(Fiber *));
    g_probe[PR_TEAMS]++;
    if (n > 1 && active >= 1) g_probe[PR_TEAMS_NESTED_ACTIVE]++;
    if (n > g_probe[PR_TEAM_MAX]) g_probe[PR_TEAM_MAX] = n;
    for (unsigned i = 0; i < n; i++) {
        Task *it = task_new(tm, enc, 0);
        it->state = T_RUNNING;
        tm->implicit[i] = it;
    }
    for (unsigned i = 1; i < n; i++) {
        Fiber *f = fiber_new();
        f->w_team = tm; f->w_tid = (int)i;
        f->tls_key = (level == 1) ? (int)i : -1;      /* top-level worker i is pool thread i; nested workers get their own storage */
        if (f->tls_priv) { sim_xfree(f->tls_priv); f->tls_priv = NULL; }
        tm->workers[i] = f;
    }
    Ctx cx; memset(&cx, 0, sizeof cx);
    cx.team = tm; cx.tid = 0; cx.cur = tm->implicit[0]; cx.up = up;
    if (g_ploop.armed) {
        g_ploop.armed = 0; tm->ploop = 1; tm->ws_gen = 1; cx.ws_count = 1;
        tm->ws_next = g_ploop.s; tm->ws_end = g_ploop.e; tm->ws_incr = g_ploop.i; tm->ws_chunk = g_ploop.c < 1 ? 1 : g_ploop.c; tm->ws_kind = g_ploop.kind;
    }
    g_cur->ctx = &cx;
    if (n > 1) schedule(W.p_switch);
    fn(data);
    end_barrier(tm);
    if (n > 1) {
        g_cur->state = F_JOIN; g_cur->wait_team = tm;
        schedule(W.p_switch);
        g_cur->state = F_RUN;
    }
    g_cur->ctx = up;
    for (unsigned i = 1; i < n; i++) fiber_release(tm->workers[i]);
    for (Task *t = tm->all, *nx; t; t = nx) { nx = t->all_next; if (t->argbuf) sim_xfree(t->argbuf); sim_xfree(t); }
    sim_xfree(tm->implicit); sim_xfree(tm->workers); sim_xfree(tm);
}

bool GOMP_single_start(void)
{
    Ctx *cx = g_cur->ctx;
    Team *tm = cx->team;
    if (!tm) return true;
    if (tm->n > 1) schedule(W.p_switch);
    bool won = cx->single_count == tm->single_count;
    if (won) tm->single_count++;
    cx->single_count++;
    return won;
}

void *GOMP_single_copy_start(void)
{
    Ctx *cx = g_cur->ctx; Team *tm = cx->team;
    if (!tm) return NULL;
    if (GOMP_single_start()) return NULL;
    extern void GOMP_barrier(void);
    GOMP_barrier();
    void *r = tm->copypriv;
    GOMP_barrier();
    return r;
}

void GOMP_single_copy_end(void *data)
{
    Team *tm = g_cur->ctx->team;
    if (!tm) return;
    extern void GOMP_barrier(void);
    tm->copypriv = data;
    GOMP_barrier();
    GOMP_barrier();
}

void GOMP_barrier(void)
{
    SB_SYNC();
    Ctx *cx = g_cur->ctx; Team *tm = cx->team;
    if (!tm || tm->n == 1) {
        /* a barrier is a task scheduling point: with one thread run what is queued */
        if (tm) while (tm->qlen > 0) { Task *e = pick_task(tm, NULL); q_remove(tm, e); run_task_here(e); }
        return;
    }
    unsigned gen = tm->bar_gen;
    if (++tm->bar_count == tm->n) {
        /* last arriver: all explicit tasks generated so far must complete before release */
        while (tm->outstanding > 0) {
            if (tm->qlen > 0) { Task *e = pick_task(tm, NULL); q_remove(tm, e); run_task_here(e); }
            else { g_cur->state = F_BARRIER_LAST; g_cur->wait_team = tm; schedule(W.p_switch); g_cur->state = F_RUN; }
        }
        tm->bar_count = 0; tm->bar_gen++;
        schedule(W.p_switch);
        return;
    }
    while (tm->bar_gen == gen) {
        g_cur->state = F_BARRIER; g_cur->wait_team = tm; g_cur->wait_gen = gen;
        schedule(W.p_switch);
        g_cur->state = F_RUN;
        if (tm->bar_gen != gen) break;
        if (tm->qlen > 0) { Task *e = pick_task(tm, NULL); q_remove(tm, e); run_task_here(e); }
    }
}

/* ------------------------------------------------------------------ critical / atomic / locks */

static int g_crit_lock, g_atomic_lock;

static void lock_acquire(int *l)
{
    SB_SYNC();                    /* lock operations imply a flush */
    while (*l) { g_cur->state = F_LOCK; g_cur->wait_lock = l; schedule(0x10000u); g_cur->state = F_RUN; }
    *l = 1;
    if (g_nfib > 1) schedule(W.p_switch);
}
static void lock_release(int *l) {
    SB_SYNC(); *l = 0; if (g_nfib > 1) schedule(W.p_switch); }

void GOMP_critical_start(void) { lock_acquire(&g_crit_lock); }
void GOMP_critical_end(void) { lock_release(&g_crit_lock); }
void GOMP_critical_name_start(void **p) { lock_acquire((int *)p); }
void GOMP_critical_name_end(void **p) { lock_release((int *)p); }
void GOMP_atomic_start(void) { lock_acquire(&g_atomic_lock); }
void GOMP_atomic_end(void) { lock_release(&g_atomic_lock); }

typedef struct { int l; int owner; int count; } sim_lock;
void omp_init_lock(void **l) { memset(l, 0, sizeof(void *)); }
void omp_destroy_lock(void **l) { (void)l; }
void omp_set_lock(void **l) { lock_acquire((int *)l); }
void omp_unset_lock(void **l) { lock_release((int *)l); }
int  omp_test_lock(void **l) { int *p = (int *)l; if (*p) return 0; *p = 1; return 1; }

/* ------------------------------------------------------------------ worksharing loops (dynamic/guided/runtime/static through the runtime) */

static bool ws_enter(Ctx *cx, Team *tm)
{
    /* returns true for the first thread to reach this construct */
    bool first = cx->ws_count == tm->ws_gen;
    if (first) { tm->ws_gen++; tm->ws_left = (unsigned)tm->n; }
    cx->ws_count++;
    return first;
}

static bool loop_start(long start, long end, long incr, long chunk, int kind, long *istart, long *iend)
{
    extern bool GOMP_loop_dynamic_next(long *, long *);
    Ctx *cx = g_cur->ctx; Team *tm = cx->team;
    if (!tm) {
        if ((incr > 0 && start >= end) || (incr < 0 && start <= end)) return false;
        *istart = start; *iend = end;
        return true;
    }
    if (tm->n > 1) schedule(W.p_switch);
    if (ws_enter(cx, tm)) {
        tm->ws_next = start; tm->ws_end = end; tm->ws_incr = incr; tm->ws_chunk = chunk < 1 ? 1 : chunk; tm->ws_kind = kind;
    }
    return GOMP_loop_dynamic_next(istart, iend);
}

bool GOMP_loop_dynamic_next(long *istart, long *iend)
{
    Ctx *cx = g_cur->ctx; Team *tm = cx->team;
    if (!tm) return false;
    if (tm->n > 1) schedule(W.p_switch);
    long incr = tm->ws_incr, left;
    if (incr > 0) left = (tm->ws_end - tm->ws_next + incr - 1) / incr; else left = (tm->ws_next - tm->ws_end - incr - 1) / -incr;
    if (left <= 0) return false;
    long take = tm->ws_chunk;
    if (tm->ws_kind == 2) { long g = (left + tm->n - 1) / tm->n; if (g > take) take = g; }
    if (take > left) take = left;
    *istart = tm->ws_next;
    tm->ws_next += take * incr;
    *iend = tm->ws_next;
    return true;
}

bool GOMP_loop_dynamic_start(long s, long e, long i, long c, long *is, long *ie) { return loop_start(s, e, i, c, 1, is, ie); }
bool GOMP_loop_nonmonotonic_dynamic_start(long s, long e, long i, long c, long *is, long *ie) { return loop_start(s, e, i, c, 1, is, ie); }
bool GOMP_loop_guided_start(long s, long e, long i, long c, long *is, long *ie) { return loop_start(s, e, i, c, 2, is, ie); }
bool GOMP_loop_nonmonotonic_guided_start(long s, long e, long i, long c, long *is, long *ie) { return loop_start(s, e, i, c, 2, is, ie); }
bool GOMP_loop_runtime_start(long s, long e, long i, long *is, long *ie) { return loop_start(s, e, i, 1, 1, is, ie); }
bool GOMP_loop_maybe_nonmonotonic_runtime_start(long s, long e, long i, long *is, long *ie) { return loop_start(s, e, i, 1, 1, is, ie); }
bool GOMP_loop_nonmonotonic_runtime_start(long s, long e, long i, long *is, long *ie) { return loop_start(s, e, i, 1, 1, is, ie); }
bool GOMP_loop_static_start(long s, long e, long i, long c, long *is, long *ie) { return loop_start(s, e, i, c < 1 ? 1 : c, 1, is, ie); }
bool GOMP_loop_nonmonotonic_dynamic_next(long *a, long *b) { return GOMP_loop_dynamic_next(a, b); }
bool GOMP_loop_guided_next(long *a, long *b) { return GOMP_loop_dynamic_next(a, b); }
bool GOMP_loop_nonmonotonic_guided_next(long *a, long *b) { return GOMP_loop_dynamic_next(a, b); }
bool GOMP_loop_runtime_next(long *a, long *b) { return GOMP_loop_dynamic_next(a, b); }
bool GOMP_loop_maybe_nonmonotonic_runtime_next(long *a, long *b) { return GOMP_loop_dynamic_next(a, b); }
bool GOMP_loop_nonmonotonic_runtime_next(long *a, long *b) { return GOMP_loop_dynamic_next(a, b); }
bool GOMP_loop_static_next(long *a, long *b) { return GOMP_loop_dynamic_next(a, b); }
void GOMP_loop_end(void) { GOMP_barrier(); }
void GOMP_loop_end_nowait(void) { }
bool GOMP_loop_end_cancel(void) { GOMP_barrier(); return false; }

/* combined parallel + loop: set up the shared loop state in the team before it starts */
static void ploop_body_wrapper_arm(long s, long e, long i, long c, int kind) { g_ploop.s = s; g_ploop.e = e; g_ploop.i = i; g_ploop.c = c; g_ploop.kind = kind; g_ploop.armed = 1; }

static void parallel_loop(void (*fn)(void *), void *data, unsigned nt, long s, long e, long i, long c, int kind, unsigned flags)
{
    /* The outlined body calls GOMP_loop_*_next directly; the team's loop state must exist first.
       We emulate by running GOMP_parallel with a hook that initialises the workshare on entry. */
    ploop_body_wrapper_arm(s, e, i, c, kind);
    GOMP_parallel(fn, data, nt, flags);
}

void GOMP_parallel_loop_dynamic(void (*fn)(void *), void *d, unsigned nt, long s, long e, long i, long c, unsigned fl) { parallel_loop(fn, d, nt, s, e, i, c, 1, fl); }
void GOMP_parallel_loop_nonmonotonic_dynamic(void (*fn)(void *), void *d, unsigned nt, long s, long e, long i, long c, unsigned fl) { parallel_loop(fn, d, nt, s, e, i, c, 1, fl); }
void GOMP_parallel_loop_guided(void (*fn)(void *), void *d, unsigned nt, long s, long e, long i, long c, unsigned fl) { parallel_loop(fn, d, nt, s, e, i, c, 2, fl); }
void GOMP_parallel_loop_nonmonotonic_guided(void (*fn)(void *), void *d, unsigned nt, long s, long e, long i, long c, unsigned fl) { parallel_loop(fn, d, nt, s, e, i, c, 2, fl); }
void GOMP_parallel_loop_runtime(void (*fn)(void *), void *d, unsigned nt, long s, long e, long i, unsigned fl) { parallel_loop(fn, d, nt, s, e, i, 1, 1, fl); }
void GOMP_parallel_loop_maybe_nonmonotonic_runtime(void (*fn)(void *), void *d, unsigned nt, long s, long e, long i, unsigned fl) { parallel_loop(fn, d, nt, s, e, i, 1, 1, fl); }
void GOMP_parallel_loop_nonmonotonic_runtime(void (*fn)(void *), void *d, unsigned nt, long s, long e, long i, unsigned fl) { parallel_loop(fn, d, nt, s, e, i, 1, 1, fl); }
void GOMP_parallel_loop_static(void (*fn)(void *), void *d, unsigned nt, long s, long e, long i, long c, unsigned fl) { parallel_loop(fn, d, nt, s, e, i, c < 1 ? 1 : c, 1, fl); }

/* sections */
unsigned GOMP_sections_next(void)
{
    Team *tm = g_cur->ctx->team;
    if (!tm) return 0;
    if (tm->n > 1) schedule(W.p_switch);
    if (tm->ws_next > tm->ws_end) return 0;
    return (unsigned)tm->ws_next++;
}
unsigned GOMP_sections_start(unsigned count)
{
    Ctx *cx = g_cur->ctx; Team *tm = cx->team;
    if (!tm) sim_fatal("UNSUPPORTED", "orphaned sections construct");
    if (tm->n > 1) schedule(W.p_switch);
    if (ws_enter(cx, tm)) { tm->ws_next = 1; tm->ws_end = (long)count; }
    return GOMP_sections_next();
}
void GOMP_sections_end(void) { GOMP_barrier(); }
void GOMP_sections_end_nowait(void) { }
void GOMP_parallel_sections(void (*fn)(void *), void *data, unsigned nt, unsigned count, unsigned flags)
{
    g_ploop.s = 1; g_ploop.e = (long)count; g_ploop.kind = 3; g_ploop.armed = 1;
    GOMP_parallel(fn, data, nt, flags);
}

/* ordered: serialise by a lock (iteration order is not modelled) */
void GOMP_ordered_start(void) { sim_fatal("UNSUPPORTED", "ordered construct"); }
void GOMP_ordered_end(void) { }

/* ------------------------------------------------------------------ omp_* API */

void omp_set_num_threads(int n) { if (n > 0) cur_task()->nthreads_var = n; }
int  omp_get_num_threads(void) { Team *tm = g_cur->ctx->team; return tm ? tm->n : 1; }
int  omp_get_thread_num(void) { return g_cur->ctx->tid; }
int  omp_get_max_threads(void) { return cur_task()->nthreads_var; }
int  omp_get_num_procs(void) { return 16; }
int  omp_in_parallel(void) { Team *tm = g_cur->ctx->team; return tm && tm->active_level > 0; }
int  omp_get_level(void) { Team *tm = g_cur->ctx->team; return tm ? tm->level : 0; }
int  omp_get_active_level(void) { Team *tm = g_cur->ctx->team; return tm ? tm->active_level : 0; }
int  omp_get_thread_limit(void) { return W.thread_limit; }
int  omp_get_max_active_levels(void) { return W.max_active_levels; }
void omp_set_max_active_levels(int n) { if (n >= 0) W.max_active_levels = n; }
void omp_set_nested(int n) { W.max_active_levels = n ? 64 : 1; }
int  omp_get_nested(void) { return W.max_active_levels > 1; }
void omp_set_dynamic(int n) { (void)n; }
int  omp_get_dynamic(void) { return 0; }
double omp_get_wtime(void) { extern int64_t simclock_now(void); return (double)simclock_now(); }
double omp_get_wtick(void) { return 1.0; }

/* ------------------------------------------------------------------ yield / preemption entry points */

int simomp_cur_fiber(void) { return g_cur ? g_cur->id : 0; }
int simomp_team_size(void) { Team *tm = g_cur->ctx->team; return tm ? tm->n : 1; }
int simomp_in_parallel_work(void) { return g_nfib > 1; }

void simomp_hook_yield(void)
{
    if (g_nfib > 1 && W.p_hook_yield) { g_probe[PR_HOOKYIELDS]++; schedule(W.p_hook_yield); }
}

static void preempt_trace_push(uint64_t at)
{
    if (g_preempt_trace_n == g_preempt_trace_cap) {
        g_preempt_trace_cap = g_preempt_trace_cap ? g_preempt_trace_cap * 2 : 256;
        g_preempt_trace = sim_xrealloc(g_preempt_trace, g_preempt_trace_cap * sizeof *g_preempt_trace);
    }
    g_preempt_trace[g_preempt_trace_n++] = at;
}

static void next_preempt_position(void)
{
    if (W.explicit_decisions) {
        g_next_preempt = g_preempt_pos < g_preempt_n ? g_preempt_at[g_preempt_pos++] : UINT64_MAX;
    } else if (W.p_preempt) {
        double u = ((double)(sim_rng_next(&g_srng) >> 11) + 1.0) / 9007199254740993.0;
        double p = (double)W.p_preempt / 4294967296.0;
        double gap = floor(log(u) / log1p(-p)) + 1.0;
        if (gap > 1e15) gap = 1e15;
        g_next_preempt = g_accesses + (uint64_t)gap;
    } else g_next_preempt = UINT64_MAX;
}

/* called by the instrumentation callbacks for every instrumented memory access */
void simomp_preempt_point(void)
{
    if (++g_accesses < g_next_preempt) return;
    simomp_preempt_slow();
}

/* slow path: g_accesses has reached g_next_preempt */
void simomp_preempt_slow(void)
{
    uint64_t at = g_accesses;
    next_preempt_position();
    if (g_nfib > 1 && g_sim_active && g_preempt_trace_n < 20000) {
        preempt_trace_push(at);
        g_probe[PR_PREEMPTS]++;
        g_at_preempt = 1;
        schedule(0x10000u);
        g_at_preempt = 0;
    } else if (W.explicit_decisions) {
        preempt_trace_push(at);
    }
}

void simomp_preempt_now(void)
{
    if (W.explicit_decisions || g_nfib < 2 || !g_sim_active) return;
    if (g_preempt_trace_n >= 4000) return;          /* enough: heavily shared data (DP rows handed between tasks) must not turn a run into a crawl */
    if (!sim_rng_chance(&g_srng, W.p_shared)) return;
    preempt_trace_push(g_accesses);
    g_probe[PR_PREEMPTS]++;
    g_accesses_preempted++;
    g_at_preempt = 1;
    schedule(0x10000u);
    g_at_preempt = 0;
}

void simomp_preempt_soon(void)
{
    /* faults and preemptions placed uniformly mostly revisit the same states: put some right after the
       start of a task body, where two bodies of the same kind are most likely to overlap */
    if (W.explicit_decisions || !W.p_burst || g_nfib < 2) return;
    if (!sim_rng_chance(&g_srng, W.p_burst)) return;
    uint64_t at = g_accesses + 1 + sim_rng_below(&g_srng, W.burst_len ? W.burst_len : 64);
    if (at < g_next_preempt) g_next_preempt = at;
}

/* a store has just been parked in a store buffer: the interesting schedules are the ones that let another virtual
   thread run before it drains, so place a preemption within the next few accesses (half of the time) */
void simomp_preempt_after_buffered_store(void)
{
    if (W.explicit_decisions || g_nfib < 2) return;
    if (!sim_rng_chance(&g_srng, 0x8000u)) return;
    uint64_t at = g_accesses + 1 + sim_rng_below(&g_srng, 4);
    if (at < g_next_preempt) g_next_preempt = at;
}

void simomp_reset(void)
{
    /* called between plans, on the root fiber, with no parallel region active */
    memset(&g_root_task, 0, sizeof g_root_task);
    g_root_task.nthreads_var = W.nthreads_icv;
    g_root_task.state = T_RUNNING;
    memset(&g_root_ctx, 0, sizeof g_root_ctx);
    g_root_ctx.cur = &g_root_task;
    if (!g_cur) {
        g_root.id = 0; g_root.state = F_RUN;
        g_fib[0] = &g_root; g_nfib = 1; g_cur = &g_root;
    }
    g_root.ctx = &g_root_ctx;
    g_root.stall_until = 0; g_root.state = F_RUN; g_root.saved_errno = 0;   /* nothing survives from the previous plan */
    g_root.tls_key = 0;
    tls_reset();
    g_next_fiber_id = 1; g_next_task_id = 1;
    g_srng.s = W.sched_seed ^ 0xA5A5A5A55A5A5A5AULL;
    g_steps = 0; g_accesses = 0; g_trace_n = 0; g_dec_pos = 0; g_preempt_pos = 0; g_preempt_trace_n = 0;
    g_crit_lock = g_atomic_lock = 0;
    g_cur_fiber_id = 0;
    memset(g_probe, 0, sizeof g_probe);
    next_preempt_position();
}

/* the root fiber may itself live on a big mmap'd stack (driver sets this up) */
void simomp_set_root_stack(void *stack, size_t size) { g_root.stack = stack; g_root.ssize = size; }
