/* Self-test of the simulated OpenMP runtime (driver op T): constructs kalign does not use today but a
   change to it may introduce (taskloop, task reductions, taskgroup, sections, dynamic loops), computed
   with exact integer arithmetic so that every schedule must give the same answer.  Compiled with
   -fopenmp like the kalign sources, so the compiler emits the libgomp calls that simomp implements. */
#include <stdio.h>
#include <stdlib.h>
#include <string.h>
#ifdef _OPENMP
#include <omp.h>
#endif

static long serial_sum(const long *v, int n) { long s = 0; for (int i = 0; i < n; i++) s += v[i] * (i % 7 + 1); return s; }

int sim_omp_selftest(int nthreads, int n, char *msg, size_t msglen)
{
    long *v = malloc(sizeof(long) * (size_t)(n > 0 ? n : 1));
    long hist_ref[8] = {0}, hist[8] = {0};
    for (int i = 0; i < n; i++) { v[i] = (long)((i * 2654435761u) % 1000); hist_ref[v[i] % 8] += v[i]; }
    long ref = serial_sum(v, n);
    long s1 = 0, s2 = 0, s3 = 0, s4 = 0, s5 = 0, s6 = 0;
    int bad = 0;
    msg[0] = 0;
#ifdef _OPENMP
#pragma omp parallel num_threads(nthreads)
    {
#pragma omp single
        {
            /* taskloop with a scalar reduction, default chunking */
#pragma omp taskloop reduction(+:s1)
            for (int i = 0; i < n; i++) s1 += v[i] * (i % 7 + 1);
            /* grainsize, negative-free step > 1 */
#pragma omp taskloop grainsize(5) reduction(+:s2)
            for (int i = 0; i < n; i += 3) s2 += v[i];
            /* num_tasks and an array-section reduction */
#pragma omp taskloop num_tasks(7) reduction(+:hist[:8])
            for (int i = 0; i < n; i++) hist[v[i] % 8] += v[i];
            /* downward loop, nogroup + explicit taskgroup with task_reduction / in_reduction */
#pragma omp taskgroup task_reduction(+:s3)
            {
#pragma omp taskloop nogroup in_reduction(+:s3)
                for (int i = n - 1; i >= 0; i--) s3 += v[i];
#pragma omp task in_reduction(+:s3)
                s3 += 17;
            }
            /* nested tasks inside a taskgroup without taskwait: the group end must wait for grandchildren */
            long cells[16]; memset(cells, 0, sizeof cells);
#pragma omp taskgroup
            {
                for (int k = 0; k < 4; k++) {
#pragma omp task firstprivate(k) shared(cells)
                    {
                        for (int q = 0; q < 4; q++) {
#pragma omp task firstprivate(k, q) shared(cells)
                            cells[k * 4 + q] = (long)(k * 4 + q + 1);
                        }
                    }
                }
            }
            for (int k = 0; k < 16; k++) s4 += cells[k];
        }
        /* worksharing loop with dynamic schedule and a reduction; sections */
#pragma omp for schedule(dynamic, 3) reduction(+:s5)
        for (int i = 0; i < n; i++) s5 += v[i] * (i % 7 + 1);
#pragma omp sections reduction(+:s6)
        {
#pragma omp section
            s6 += 1;
#pragma omp section
            s6 += 10;
#pragma omp section
            s6 += 100;
        }
    }
#else
    (void)nthreads;
    s1 = ref; for (int i = 0; i < n; i += 3) s2 += v[i]; memcpy(hist, hist_ref, sizeof hist);
    for (int i = 0; i < n; i++) s3 += v[i]; s3 += 17; s4 = 136; s5 = ref; s6 = 111;
#endif
    long ref2 = 0, ref3 = 17;
    for (int i = 0; i < n; i += 3) ref2 += v[i];
    for (int i = 0; i < n; i++) ref3 += v[i];
    if (s1 != ref) { bad++; snprintf(msg + strlen(msg), msglen - strlen(msg), "taskloop-reduction %ld!=%ld;", s1, ref); }
    if (s2 != ref2) { bad++; snprintf(msg + strlen(msg), msglen - strlen(msg), "taskloop-grainsize %ld!=%ld;", s2, ref2); }
    if (memcmp(hist, hist_ref, sizeof hist)) { bad++; snprintf(msg + strlen(msg), msglen - strlen(msg), "taskloop-array-reduction;"); }
    if (s3 != ref3) { bad++; snprintf(msg + strlen(msg), msglen - strlen(msg), "taskgroup-task_reduction %ld!=%ld;", s3, ref3); }
    if (s4 != 136) { bad++; snprintf(msg + strlen(msg), msglen - strlen(msg), "taskgroup-descendants %ld!=136;", s4); }
    if (s5 != ref) { bad++; snprintf(msg + strlen(msg), msglen - strlen(msg), "for-dynamic-reduction %ld!=%ld;", s5, ref); }
    if (s6 != 111) { bad++; snprintf(msg + strlen(msg), msglen - strlen(msg), "sections-reduction %ld!=111;", s6); }
    free(v);
    return bad;
}

/* Store-buffering litmus test (Dekker handshake with relaxed atomics): two tasks each publish a flag and then read
   the other's.  Under sequential consistency at least one of them sees the other's flag; with store buffers (x86-TSO)
   both may read 0.  Returns 1 if both read 0.  Used to validate simomp's store-buffer model, not to judge kalign. */
int sim_omp_litmus_sb(int nthreads)
{
    int x = 0, y = 0, r1 = -1, r2 = -1;
#ifdef _OPENMP
#pragma omp parallel num_threads(nthreads)
    {
#pragma omp single
        {
#pragma omp task shared(x, y, r1)
            {
#pragma omp atomic write
                x = 1;
#pragma omp atomic read
                r1 = y;
            }
#pragma omp task shared(x, y, r2)
            {
#pragma omp atomic write
                y = 1;
#pragma omp atomic read
                r2 = x;
            }
#pragma omp taskwait
        }
    }
#else
    (void)nthreads; x = y = 1; r1 = r2 = 1;
#endif
    return r1 == 0 && r2 == 0;
}

/* Thread-local storage test: every thread of a team writes its own threadprivate variable; in a second parallel region
   of the same size each thread must find its own value again (libgomp keeps its worker threads, and so does the
   simulator's TLS model), and the main thread's copy must not have been overwritten by the workers.  Returns the number
   of wrong observations. */
static int tp_value;
#ifdef _OPENMP
#pragma omp threadprivate(tp_value)
#endif
int sim_omp_tls_test(int nthreads)
{
    int bad = 0;
#ifdef _OPENMP
    tp_value = 7;
#pragma omp parallel num_threads(nthreads)
    {
        if (omp_get_thread_num() != 0) tp_value = 100 + omp_get_thread_num();
    }
    if (tp_value != 7) bad++;
#pragma omp parallel num_threads(nthreads) reduction(+:bad)
    {
        int t = omp_get_thread_num();
        if (t == 0 ? tp_value != 7 : tp_value != 100 + t) bad++;
    }
#else
    (void)nthreads;
#endif
    return bad;
}
